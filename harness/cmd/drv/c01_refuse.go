package main

// C01: "refusal to mesh solids that are true on the outer lattice layer".  A solid that under-reports
// its bounds on one face puts contained points on the outer layer of the sampling lattice; the meshers
// refuse such a solid by panicking (inside a worker goroutine, which ends the process - hence one
// process per case).  If the call RETURNS, the result line says so and whether the mesh is closed.

import (
	"fmt"

	"github.com/unixpickle/model3d/model2d"
	"github.com/unixpickle/model3d/model3d"
)

// a box [1,4]^3 that claims bounds one unit short on the given face (0..5 = -x +x -y +y -z +z)
type lyingBox3 struct{ face int }

func (b lyingBox3) Min() model3d.Coord3D {
	mn := [3]float64{1, 1, 1}
	if b.face%2 == 0 {
		mn[b.face/2] = 2
	}
	return model3d.NewCoord3DArray(mn)
}
func (b lyingBox3) Max() model3d.Coord3D {
	mx := [3]float64{4, 4, 4}
	if b.face%2 == 1 {
		mx[b.face/2] = 3
	}
	return model3d.NewCoord3DArray(mx)
}
func (b lyingBox3) Contains(c model3d.Coord3D) bool {
	for _, v := range c.Array() {
		if v < 0.5 || v > 4.5 {
			return false
		}
	}
	return true
}

type lyingBox2 struct{ face int }

func (b lyingBox2) Min() model2d.Coord {
	mn := [2]float64{1, 1}
	if b.face%2 == 0 {
		mn[b.face/2] = 2
	}
	return model2d.NewCoordArray(mn)
}
func (b lyingBox2) Max() model2d.Coord {
	mx := [2]float64{4, 4}
	if b.face%2 == 1 {
		mx[b.face/2] = 3
	}
	return model2d.NewCoordArray(mx)
}
func (b lyingBox2) Contains(c model2d.Coord) bool {
	return c.X >= 0.5 && c.X <= 4.5 && c.Y >= 0.5 && c.Y <= 4.5
}

func init() {
	// c01-refuse variant=MC|MCSearch|MCFilter|MS|MSFilter face=K
	register("c01-refuse", func(a args) {
		face := a.int("face", 0)
		closed3 := func(m *model3d.Mesh) bool { return !m.NeedsRepair() }
		switch v := a.str("variant", "MC"); v {
		case "MC":
			m := model3d.MarchingCubes(lyingBox3{face}, 1)
			fmt.Printf("RETURNED faces=%d closed=%v\n", m.NumTriangles(), closed3(m))
		case "MCSearch":
			m := model3d.MarchingCubesSearch(lyingBox3{face}, 1, 3)
			fmt.Printf("RETURNED faces=%d closed=%v\n", m.NumTriangles(), closed3(m))
		case "MCFilter":
			m := model3d.MarchingCubesFilter(lyingBox3{face}, func(*model3d.Rect) bool { return true }, 1)
			fmt.Printf("RETURNED faces=%d closed=%v\n", m.NumTriangles(), closed3(m))
		case "MS":
			m := model2d.MarchingSquares(lyingBox2{face}, 1)
			fmt.Printf("RETURNED faces=%d closed=%v\n", m.NumSegments(), m.Manifold())
		case "MSFilter":
			m := model2d.MarchingSquaresFilter(lyingBox2{face}, func(*model2d.Rect) bool { return true }, 1)
			fmt.Printf("RETURNED faces=%d closed=%v\n", m.NumSegments(), m.Manifold())
		default:
			fatal("unknown variant %q", v)
		}
	})
}
