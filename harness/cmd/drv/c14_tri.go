package main

// C14: polygons / regions of spec/tri/PolygonGen.tla and RegionGen.tla handed to the real
// triangulators in every rotation and orientation; observations for PolygonJudge.tla.

import (
	"encoding/json"
	"fmt"
	"math"
	"strings"
	"time"

	"github.com/unixpickle/model3d/model2d"
	"github.com/unixpickle/model3d/model3d"
)

type triExtrude struct {
	H     int     `json:"h"`
	Faces [][]int `json:"faces"`
	NV    int     `json:"nv"`
	Vol6  int     `json:"vol6"`
	VolX  bool    `json:"volx"`
}
type triRec struct {
	ID        int        `json:"id"`
	Site      string     `json:"site"`
	Variant   string     `json:"variant"`
	Rings     [][][]int  `json:"rings"`
	Tris      [][]int    `json:"tris"`
	Outcome   string     `json:"outcome"`
	Panic     string     `json:"panic"`
	Clockwise bool       `json:"clockwise"`
	Extrude   triExtrude `json:"extrude"`
}

func ringArea2(r [][]int) int {
	s := 0
	for i := range r {
		j := (i + 1) % len(r)
		s += r[i][0]*r[j][1] - r[j][0]*r[i][1]
	}
	return s
}

func rotateRing(r [][]int, k int, reverse bool) [][]int {
	n := len(r)
	out := make([][]int, n)
	for i := 0; i < n; i++ {
		j := (i + k) % n
		if reverse {
			j = ((k-i)%n + n) % n
		}
		out[i] = r[j]
	}
	return out
}

// runs f with a deadline; a hanging call is abandoned
func withDeadline(d time.Duration, f func()) (outcome, pan string) {
	ch := make(chan string, 1)
	go func() { ch <- protect(f) }()
	select {
	case p := <-ch:
		if p != "" {
			return "panic", p
		}
		return "ok", ""
	case <-time.After(d):
		return "hang", ""
	}
}

func vertexIndex2(rings [][][]int, c model2d.Coord) int {
	idx := 0
	for _, r := range rings {
		for _, p := range r {
			idx++
			if c.X == float64(p[0]) && c.Y == float64(p[1]) {
				return idx
			}
		}
	}
	return 0
}

func triPolygonSites(id *int, out *ndWriter, stats map[string]int, ring [][]int, variant string, scaled bool) {
	emit := func(rec triRec) {
		*id++
		rec.ID = *id
		rec.Variant = variant
		rec.Rings = [][][]int{ring}
		if rec.Tris == nil {
			rec.Tris = [][]int{}
		}
		if rec.Extrude.Faces == nil {
			rec.Extrude.Faces = [][]int{}
		}
		out.write(rec)
		stats["records"]++
		stats["site:"+rec.Site]++
		stats["outcome:"+rec.Outcome]++
	}
	rings := [][][]int{ring}
	// model2d.Triangulate, also on dyadic re-scalings of the polygon (exact in floating point, so
	// the answer must be the same triangulation of the same integer polygon)
	for _, sc := range []struct {
		name string
		f    float64
	}{{"", 1}, {"@2^-16", 1.0 / 65536}, {"@2^10", 1024}} {
		if sc.f != 1 && !scaled {
			continue
		}
		poly := make([]model2d.Coord, len(ring))
		for i, p := range ring {
			poly[i] = model2d.XY(float64(p[0])*sc.f, float64(p[1])*sc.f)
		}
		var res [][3]model2d.Coord
		rec := triRec{Site: "model2d.Triangulate" + sc.name}
		rec.Outcome, rec.Panic = withDeadline(3*time.Second, func() { res = model2d.Triangulate(poly) })
		for _, t := range res {
			tri := []int{0, 0, 0}
			for k := range t {
				tri[k] = vertexIndex2(rings, t[k].Scale(1/sc.f))
			}
			rec.Tris = append(rec.Tris, tri)
		}
		emit(rec)
	}
	// model3d.TriangulateFace in three lattice planes
	embeds := []struct {
		name string
		f    func(p []int) model3d.Coord3D
	}{
		{"z=0", func(p []int) model3d.Coord3D { return model3d.XYZ(float64(p[0]), float64(p[1]), 0) }},
		{"x=2", func(p []int) model3d.Coord3D { return model3d.XYZ(2, float64(p[0]), float64(p[1])) }},
		{"z=x+2y", func(p []int) model3d.Coord3D { return model3d.XYZ(float64(p[0]), float64(p[1]), float64(p[0]+2*p[1])) }},
	}
	for _, e := range embeds {
		poly := make([]model3d.Coord3D, len(ring))
		for i, p := range ring {
			poly[i] = e.f(p)
		}
		var res []*model3d.Triangle
		rec := triRec{Site: "model3d.TriangulateFace[" + e.name + "]"}
		rec.Outcome, rec.Panic = withDeadline(3*time.Second, func() { res = model3d.TriangulateFace(poly) })
		for _, t := range res {
			tri := []int{0, 0, 0}
			for k, c := range t {
				for i, q := range poly {
					// the face is rebuilt from a 2-D basis: coordinates are exact up to rounding
					if q.Dist(c) < 1e-9 {
						tri[k] = i + 1
					}
				}
			}
			rec.Tris = append(rec.Tris, tri)
		}
		emit(rec)
	}
	// the same planar face read from an OFF file (model3d.ReadOFF triangulates polygon faces)
	if len(ring) >= 4 {
		e := embeds[2]
		poly := make([]model3d.Coord3D, len(ring))
		var sb strings.Builder
		fmt.Fprintf(&sb, "OFF\n%d 1 0\n", len(ring))
		for i, p := range ring {
			poly[i] = e.f(p)
			fmt.Fprintf(&sb, "%g %g %g\n", poly[i].X, poly[i].Y, poly[i].Z)
		}
		fmt.Fprintf(&sb, "%d", len(ring))
		for i := range ring {
			fmt.Fprintf(&sb, " %d", i)
		}
		sb.WriteString("\n")
		var res []*model3d.Triangle
		var err error
		rec := triRec{Site: "model3d.ReadOFF[" + e.name + "]"}
		rec.Outcome, rec.Panic = withDeadline(3*time.Second, func() { res, err = model3d.ReadOFF(strings.NewReader(sb.String())) })
		if rec.Outcome == "ok" && err != nil {
			rec.Outcome, rec.Panic = "panic", "ReadOFF: "+err.Error()
		}
		for _, t := range res {
			tri := []int{0, 0, 0}
			for k, c := range t {
				for i, q := range poly {
					if q.Dist(c) < 1e-9 {
						tri[k] = i + 1
					}
				}
			}
			rec.Tris = append(rec.Tris, tri)
		}
		emit(rec)
	}
}

func triRegionSites(id *int, out *ndWriter, stats map[string]int, rings [][][]int, variant string, rot int) {
	// orient as TriangulateMesh documents: normals (direction rotated by +90 degrees) point out of
	// the region, i.e. the outer ring and islands are clockwise (y up), holes counter-clockwise
	oriented := make([][][]int, len(rings))
	for k, r := range rings {
		depthEven := k == 0 || k == 2 && len(rings) == 3 && ringInside(rings[2], rings[1])
		ccw := ringArea2(r) > 0
		oriented[k] = rotateRing(r, rot%len(r), ccw == depthEven)
	}
	mesh := model2d.NewMesh()
	for _, r := range oriented {
		for i := range r {
			j := (i + 1) % len(r)
			mesh.Add(&model2d.Segment{model2d.XY(float64(r[i][0]), float64(r[i][1])), model2d.XY(float64(r[j][0]), float64(r[j][1]))})
		}
	}
	emit := func(rec triRec) {
		*id++
		rec.ID = *id
		rec.Variant = variant
		rec.Rings = oriented
		if rec.Tris == nil {
			rec.Tris = [][]int{}
		}
		if rec.Extrude.Faces == nil {
			rec.Extrude.Faces = [][]int{}
		}
		out.write(rec)
		stats["records"]++
		stats["site:"+rec.Site]++
		stats["outcome:"+rec.Outcome]++
	}
	{
		var res [][3]model2d.Coord
		rec := triRec{Site: "model2d.TriangulateMesh", Clockwise: true}
		rec.Outcome, rec.Panic = withDeadline(5*time.Second, func() { res = model2d.TriangulateMesh(mesh) })
		for _, t := range res {
			rec.Tris = append(rec.Tris, []int{vertexIndex2(oriented, t[0]), vertexIndex2(oriented, t[1]), vertexIndex2(oriented, t[2])})
		}
		emit(rec)
	}
	{
		h := 1 + rot%3
		var m *model3d.Mesh
		rec := triRec{Site: "model3d.ProfileMesh"}
		rec.Outcome, rec.Panic = withDeadline(5*time.Second, func() { m = model3d.ProfileMesh(mesh, -1, float64(h-1)) })
		if rec.Outcome == "ok" {
			rec.Extrude.H = h
			ids := map[model3d.Coord3D]int{}
			vol6 := 0.0
			m.Iterate(func(t *model3d.Triangle) {
				f := []int{0, 0, 0}
				for k, c := range t {
					if _, ok := ids[c]; !ok {
						ids[c] = len(ids) + 1
					}
					f[k] = ids[c]
				}
				rec.Extrude.Faces = append(rec.Extrude.Faces, f)
				vol6 += t[0].Dot(t[1].Cross(t[2]))
			})
			rec.Extrude.NV = len(ids)
			rec.Extrude.Vol6 = int(math.Round(vol6))
			rec.Extrude.VolX = math.Abs(vol6-math.Round(vol6)) < 1e-6
		}
		emit(rec)
	}
}

// ---- regions placed in the frame in which TriangulateMesh sweeps ----

// sweepAngle is the fixed rotation of model2d's misalignMesh: the sweep runs along the x axis of
// the input rotated by -sweepAngle.
const sweepAngle = 0.5037616150469717

// triPlacedCase is a region whose integer rings are coordinates in the sweep frame; dx nudges the
// sweep-frame x coordinate of single vertices by 1e-12 .. 1e-9, so that distinct vertices whose
// edges are in the sweep status together are nearly (never exactly) aligned along the sweep line.
// The nudges are far below the resolution of the integer skeleton (every strict predicate of the
// definition has a margin of at least 1/2 there), so the triangulation is judged on the skeleton.
type triPlacedCase struct {
	Name  string      `json:"name"`
	Rings [][][]int   `json:"rings"`
	DX    [][]float64 `json:"dx"`
	Exp   int         `json:"exp"` // coordinates are multiplied by 2^exp (exact)
}

func triPlacedSites(id *int, out *ndWriter, stats map[string]int, c triPlacedCase, rot int) {
	xAxis := model2d.NewCoordPolar(sweepAngle, 1.0)
	yAxis := model2d.XY(-xAxis.Y, xAxis.X)
	scale := math.Ldexp(1, c.Exp)
	oriented := make([][][]int, len(c.Rings))
	coords := make([][]model2d.Coord, len(c.Rings))
	index := map[model2d.Coord]int{}
	var sweepX []float64
	var tied []bool
	n := 0
	for k, r := range c.Rings {
		depthEven := k == 0 || k == 2 && len(c.Rings) == 3 && ringInside(c.Rings[2], c.Rings[1])
		ccw := ringArea2(r) > 0
		order := make([]int, len(r))
		for i := range r {
			order[i] = i
		}
		ord2 := rotateRing(intsAsRing(order), rot%len(r), ccw == depthEven)
		for _, o := range ord2 {
			i := o[0]
			d := 0.0
			if k < len(c.DX) && i < len(c.DX[k]) {
				d = c.DX[k][i]
			}
			p := xAxis.Scale((float64(r[i][0]) + d) * scale).Add(yAxis.Scale(float64(r[i][1]) * scale))
			oriented[k] = append(oriented[k], r[i])
			coords[k] = append(coords[k], p)
			n++
			if _, dup := index[p]; dup {
				fatal("placed region %s: two vertices share a coordinate", c.Name)
			}
			index[p] = n
			// exactly the expression of misalignMesh
			sweepX = append(sweepX, xAxis.Dot(p)/scale)
			tied = append(tied, d != 0)
		}
	}
	// the generator's contract: no two vertices share a sweep-frame x; vertices are either far
	// apart (>= 1e-3) or nearly aligned (5e-13 .. 1e-8)
	ties := 0
	for i := range sweepX {
		for j := 0; j < i; j++ {
			d := math.Abs(sweepX[i] - sweepX[j])
			if d < 1e-3 {
				if d < 5e-13 || d >= 1e-8 {
					fatal("placed region %s: sweep-frame x of two vertices differ by %g", c.Name, d)
				}
				ties++
			}
		}
	}
	stats["near-ties"] += ties
	mesh := model2d.NewMesh()
	for _, r := range coords {
		for i := range r {
			mesh.Add(&model2d.Segment{r[i], r[(i+1)%len(r)]})
		}
	}
	emit := func(rec triRec) {
		*id++
		rec.ID = *id
		rec.Variant = c.Name
		rec.Rings = oriented
		if rec.Tris == nil {
			rec.Tris = [][]int{}
		}
		if rec.Extrude.Faces == nil {
			rec.Extrude.Faces = [][]int{}
		}
		out.write(rec)
		stats["records"]++
		stats["site:"+rec.Site]++
		stats["outcome:"+rec.Outcome]++
	}
	{
		var res [][3]model2d.Coord
		rec := triRec{Site: "model2d.TriangulateMesh@sweep-frame", Clockwise: true}
		rec.Outcome, rec.Panic = withDeadline(10*time.Second, func() { res = model2d.TriangulateMesh(mesh) })
		for _, t := range res {
			rec.Tris = append(rec.Tris, []int{index[t[0]], index[t[1]], index[t[2]]})
		}
		emit(rec)
	}
	if c.Exp == 0 {
		h := 1 + rot%3
		var m *model3d.Mesh
		rec := triRec{Site: "model3d.ProfileMesh@sweep-frame"}
		rec.Outcome, rec.Panic = withDeadline(10*time.Second, func() { m = model3d.ProfileMesh(mesh, -1, float64(h-1)) })
		if rec.Outcome == "ok" {
			rec.Extrude.H = h
			ids := map[model3d.Coord3D]int{}
			vol6 := 0.0
			m.Iterate(func(t *model3d.Triangle) {
				f := []int{0, 0, 0}
				for k, c := range t {
					if _, ok := ids[c]; !ok {
						ids[c] = len(ids) + 1
					}
					f[k] = ids[c]
				}
				rec.Extrude.Faces = append(rec.Extrude.Faces, f)
				vol6 += t[0].Dot(t[1].Cross(t[2]))
			})
			rec.Extrude.NV = len(ids)
			rec.Extrude.Vol6 = int(math.Round(vol6))
			// the nudges change the doubled area by at most 1e-9 * the height of the region
			rec.Extrude.VolX = math.Abs(vol6-math.Round(vol6)) < 1e-5
		}
		emit(rec)
	}
}

func intsAsRing(xs []int) [][]int {
	out := make([][]int, len(xs))
	for i, x := range xs {
		out[i] = []int{x}
	}
	return out
}

// ---- polygons with many vertices: both vertex orders, several starting vertices ----

func triBigPolygonSites(id *int, out *ndWriter, stats map[string]int, ring [][]int, caseNo, seed int) {
	n := len(ring)
	emit := func(rec triRec, r [][]int, variant string) {
		*id++
		rec.ID = *id
		rec.Variant = variant
		rec.Rings = [][][]int{r}
		if rec.Tris == nil {
			rec.Tris = [][]int{}
		}
		rec.Extrude.Faces = [][]int{}
		out.write(rec)
		stats["records"]++
		stats["site:"+rec.Site]++
		stats["outcome:"+rec.Outcome]++
	}
	starts := []int{0, (7*caseNo + 13*seed + n/3) % n}
	for rev := 0; rev < 2; rev++ {
		for si, st := range starts {
			r := rotateRing(ring, st, rev == 1)
			order := "ccw"
			if ringArea2(r) < 0 {
				order = "cw"
			}
			stats["order:"+order]++
			variant := fmt.Sprintf("n%d-start%d-%s", n, st, order)
			rings := [][][]int{r}
			{
				poly := make([]model2d.Coord, n)
				for i, p := range r {
					poly[i] = model2d.XY(float64(p[0]), float64(p[1]))
				}
				var res [][3]model2d.Coord
				rec := triRec{Site: "model2d.Triangulate"}
				rec.Outcome, rec.Panic = withDeadline(60*time.Second, func() { res = model2d.Triangulate(poly) })
				for _, t := range res {
					rec.Tris = append(rec.Tris, []int{vertexIndex2(rings, t[0]), vertexIndex2(rings, t[1]), vertexIndex2(rings, t[2])})
				}
				emit(rec, r, variant)
			}
			// one embedding per variant (all three over the variants of a polygon)
			embeds := []struct {
				name string
				f    func(p []int) model3d.Coord3D
			}{
				{"z=0", func(p []int) model3d.Coord3D { return model3d.XYZ(float64(p[0]), float64(p[1]), 0) }},
				{"x=2", func(p []int) model3d.Coord3D { return model3d.XYZ(2, float64(p[0]), float64(p[1])) }},
				{"z=x+2y", func(p []int) model3d.Coord3D {
					return model3d.XYZ(float64(p[0]), float64(p[1]), float64(p[0]+2*p[1]))
				}},
			}
			e := embeds[(2*rev+si+caseNo)%3]
			poly := make([]model3d.Coord3D, n)
			for i, p := range r {
				poly[i] = e.f(p)
			}
			match := func(res []*model3d.Triangle) [][]int {
				var tris [][]int
				for _, t := range res {
					tri := []int{0, 0, 0}
					for k, c := range t {
						for i, q := range poly {
							if q.Dist(c) < 1e-9 {
								tri[k] = i + 1
							}
						}
					}
					tris = append(tris, tri)
				}
				return tris
			}
			{
				var res []*model3d.Triangle
				rec := triRec{Site: "model3d.TriangulateFace[" + e.name + "]"}
				rec.Outcome, rec.Panic = withDeadline(60*time.Second, func() { res = model3d.TriangulateFace(poly) })
				rec.Tris = match(res)
				emit(rec, r, variant)
			}
			if si == 1 {
				var sb strings.Builder
				fmt.Fprintf(&sb, "OFF\n%d 1 0\n", n)
				for _, q := range poly {
					fmt.Fprintf(&sb, "%g %g %g\n", q.X, q.Y, q.Z)
				}
				fmt.Fprintf(&sb, "%d", n)
				for i := range r {
					fmt.Fprintf(&sb, " %d", i)
				}
				sb.WriteString("\n")
				var res []*model3d.Triangle
				var err error
				rec := triRec{Site: "model3d.ReadOFF[" + e.name + "]"}
				rec.Outcome, rec.Panic = withDeadline(60*time.Second, func() { res, err = model3d.ReadOFF(strings.NewReader(sb.String())) })
				if rec.Outcome == "ok" && err != nil {
					rec.Outcome, rec.Panic = "panic", "ReadOFF: "+err.Error()
				}
				rec.Tris = match(res)
				emit(rec, r, variant)
			}
		}
	}
	// the outline as a one-ring mesh (clockwise, as TriangulateMesh documents)
	{
		r := ring
		if ringArea2(r) > 0 {
			r = rotateRing(ring, 0, true)
		}
		rings := [][][]int{r}
		mesh := model2d.NewMesh()
		for i := range r {
			j := (i + 1) % n
			mesh.Add(&model2d.Segment{model2d.XY(float64(r[i][0]), float64(r[i][1])), model2d.XY(float64(r[j][0]), float64(r[j][1]))})
		}
		var res [][3]model2d.Coord
		rec := triRec{Site: "model2d.TriangulateMesh", Clockwise: true}
		rec.Outcome, rec.Panic = withDeadline(60*time.Second, func() { res = model2d.TriangulateMesh(mesh) })
		for _, t := range res {
			rec.Tris = append(rec.Tris, []int{vertexIndex2(rings, t[0]), vertexIndex2(rings, t[1]), vertexIndex2(rings, t[2])})
		}
		emit(rec, r, fmt.Sprintf("n%d-ring", n))
	}
}

// ringInside: the first vertex of a lies strictly inside ring b (crossing number)
func ringInside(a, b [][]int) bool {
	px, py := float64(a[0][0])+0.5, float64(a[0][1])+0.25
	in := false
	for i := range b {
		j := (i + 1) % len(b)
		x1, y1, x2, y2 := float64(b[i][0]), float64(b[i][1]), float64(b[j][0]), float64(b[j][1])
		if (y1 > py) != (y2 > py) && px < (x2-x1)*(py-y1)/(y2-y1)+x1 {
			in = !in
		}
	}
	return in
}

func init() {
	register("c14-tri", func(a args) {
		out := newNDWriter(a.str("out", "records.ndjson"))
		defer out.close()
		stats := map[string]int{}
		id := 0
		mode := a.str("mode", "polygon")
		maxVariants := a.int("variants", 0)
		n := 0
		readNDJSON(a.str("in", "cases.ndjson"), func(line []byte) {
			n++
			if mode == "polygon" {
				var ring [][]int
				if err := json.Unmarshal(line, &ring); err != nil {
					fatal("bad polygon: %v", err)
				}
				cnt := 0
				for rev := 0; rev < 2; rev++ {
					for k := 0; k < len(ring); k++ {
						if maxVariants > 0 && (k*7+n+rev*3)%(2*len(ring)) >= maxVariants {
							continue
						}
						cnt++
						v := "rot" + string(rune('0'+k))
						if rev == 1 {
							v += "-rev"
						}
						triPolygonSites(&id, out, stats, rotateRing(ring, k, rev == 1), v, cnt%3 == 1)
					}
				}
				_ = cnt
				// as a region (one ring) through the mesh API as well
				triRegionSites(&id, out, stats, [][][]int{ring}, "ring", n)
			} else if mode == "placed" {
				var c triPlacedCase
				if err := json.Unmarshal(line, &c); err != nil {
					fatal("bad placed region: %v", err)
				}
				triPlacedSites(&id, out, stats, c, n)
			} else if mode == "bigpolygon" {
				var ring [][]int
				if err := json.Unmarshal(line, &ring); err != nil {
					fatal("bad polygon: %v", err)
				}
				triBigPolygonSites(&id, out, stats, ring, n, a.int("seed", 0))
			} else {
				var rings [][][]int
				if err := json.Unmarshal(line, &rings); err != nil {
					fatal("bad region: %v", err)
				}
				triRegionSites(&id, out, stats, rings, "region", n)
			}
		})
		stats["cases"] = n
		stats["nonempty"] = stats["records"]
		writeJSONFile(a.str("stats", "stats.json"), stats)
	})
}
