package main

// Lookup tables of the marching cubes / squares implementation, exported as generated
// TLA+ modules (MCTable.tla) and cross-checked black-box through the public meshers.

import (
	"fmt"
	"os"
	"sort"
	"strings"

	"github.com/unixpickle/model3d/model2d"
	"github.com/unixpickle/model3d/model3d"
)

// latticeSolid3 is a solid defined by booleans on the integer lattice 1..n (per axis);
// a point belongs to lattice point floor(c + shift) on every axis.
type latticeSolid3 struct {
	n      [3]int
	inside []bool // index x-1 + nx*(y-1 + ny*(z-1))
	shift  float64
	probe  func(c model3d.Coord3D)
	// fn, if set, replaces the lattice membership inside the reported bounds (an analytic solid whose
	// classification of the sample points is read off by the driver afterwards)
	fn func(c model3d.Coord3D) bool
}

func (l *latticeSolid3) Min() model3d.Coord3D { return model3d.XYZ(1, 1, 1) }
func (l *latticeSolid3) Max() model3d.Coord3D {
	return model3d.XYZ(float64(l.n[0]), float64(l.n[1]), float64(l.n[2]))
}
func (l *latticeSolid3) at(x, y, z int) bool {
	if x < 1 || y < 1 || z < 1 || x > l.n[0] || y > l.n[1] || z > l.n[2] {
		return false
	}
	return l.inside[x-1+l.n[0]*(y-1+l.n[1]*(z-1))]
}
func (l *latticeSolid3) Contains(c model3d.Coord3D) bool {
	if l.probe != nil {
		l.probe(c)
	}
	if c.X < 1 || c.Y < 1 || c.Z < 1 || c.X > float64(l.n[0]) || c.Y > float64(l.n[1]) || c.Z > float64(l.n[2]) {
		return false // a solid never contains points outside its reported bounds
	}
	if l.fn != nil {
		return l.fn(c)
	}
	return l.at(floorShift(c.X, l.shift), floorShift(c.Y, l.shift), floorShift(c.Z, l.shift))
}

func floorShift(c, shift float64) int {
	v := c + shift
	i := int(v)
	if float64(i) > v {
		i--
	}
	return i
}

func newLatticeSolid3(nx, ny, nz int, bits uint64) *latticeSolid3 {
	l := &latticeSolid3{n: [3]int{nx, ny, nz}, inside: make([]bool, nx*ny*nz), shift: 0.5}
	for i := range l.inside {
		l.inside[i] = bits&(1<<uint(i)) != 0
	}
	return l
}

// edge code of a vertex with exactly one non-integer coordinate: ((x*16+y)*16+z)*4+axis
func snapEdge3(c model3d.Coord3D) (code int, frac float64, ok bool) {
	arr := c.Array()
	axis := -1
	var lo [3]int
	for i, v := range arr {
		f := floorShift(v, 0)
		lo[i] = f
		if float64(f) != v {
			if axis >= 0 {
				return 0, 0, false
			}
			axis = i
			frac = v - float64(f)
		}
	}
	if axis < 0 || lo[0] < 0 || lo[1] < 0 || lo[2] < 0 || lo[0] > 15 || lo[1] > 15 || lo[2] > 15 {
		return 0, 0, false
	}
	return ((lo[0]*16+lo[1])*16+lo[2])*4 + axis, frac, true
}

func canon3(t [3]int) [3]int {
	if t[0] <= t[1] && t[0] <= t[2] {
		return t
	} else if t[1] <= t[0] && t[1] <= t[2] {
		return [3]int{t[1], t[2], t[0]}
	}
	return [3]int{t[2], t[0], t[1]}
}

func sortTris(ts [][3]int) {
	sort.Slice(ts, func(i, j int) bool {
		for k := 0; k < 3; k++ {
			if ts[i][k] != ts[j][k] {
				return ts[i][k] < ts[j][k]
			}
		}
		return false
	})
}

// blackBoxTable3 derives the table row of every configuration by meshing the 2x2x2
// lattice solid and keeping the triangles of the central cell.
func blackBoxTable3() [256][][3]int {
	var res [256][][3]int
	for bits := 0; bits < 256; bits++ {
		s := newLatticeSolid3(2, 2, 2, uint64(bits))
		m := model3d.MarchingCubes(s, 1)
		m.Iterate(func(t *model3d.Triangle) {
			var tri [3]int
			for i, c := range t {
				code, _, ok := snapEdge3(c)
				if !ok {
					fatal("black-box table: vertex %v is not on a lattice edge", c)
				}
				x, y, z, a := code/4/256, code/4/16%16, code/4%16, code%4
				// central cell is [1,2]^3: both end points of the edge inside it
				hi := [3]int{x, y, z}
				hi[a]++
				if x < 1 || y < 1 || z < 1 || hi[0] > 2 || hi[1] > 2 || hi[2] > 2 {
					return
				}
				tri[i] = code
			}
			res[bits] = append(res[bits], canon3(tri))
		})
		sortTris(res[bits])
	}
	return res
}

func exportedTable3() [256][][3]int {
	var res [256][][3]int
	tab := model3d.VerifMcLookupTable()
	corner := func(k uint8) [3]int { return [3]int{1 + int(k%2), 1 + int(k/2%2), 1 + int(k/4)} }
	edge := func(j, k uint8) int {
		a, b := corner(j), corner(k)
		lo := a
		axis := -1
		for i := range a {
			if a[i] != b[i] {
				if axis >= 0 {
					fatal("table edge %d-%d is not a cube edge", j, k)
				}
				axis = i
				if b[i] < a[i] {
					lo[i] = b[i]
				}
			}
		}
		if axis < 0 {
			fatal("table edge %d-%d is degenerate", j, k)
		}
		return ((lo[0]*16+lo[1])*16+lo[2])*4 + axis
	}
	for bits := range tab {
		for _, t := range tab[bits] {
			res[bits] = append(res[bits], canon3([3]int{edge(t[0], t[1]), edge(t[2], t[3]), edge(t[4], t[5])}))
		}
		sortTris(res[bits])
	}
	return res
}

// --- 2-D ---------------------------------------------------------------------------

type latticeSolid2 struct {
	n      [2]int
	inside []bool
	shift  float64
	probe  func(c model2d.Coord)
}

func (l *latticeSolid2) Min() model2d.Coord { return model2d.XY(1, 1) }
func (l *latticeSolid2) Max() model2d.Coord { return model2d.XY(float64(l.n[0]), float64(l.n[1])) }
func (l *latticeSolid2) at(x, y int) bool {
	if x < 1 || y < 1 || x > l.n[0] || y > l.n[1] {
		return false
	}
	return l.inside[x-1+l.n[0]*(y-1)]
}
func (l *latticeSolid2) Contains(c model2d.Coord) bool {
	if l.probe != nil {
		l.probe(c)
	}
	if c.X < 1 || c.Y < 1 || c.X > float64(l.n[0]) || c.Y > float64(l.n[1]) {
		return false
	}
	return l.at(floorShift(c.X, l.shift), floorShift(c.Y, l.shift))
}

func newLatticeSolid2(nx, ny int, bits uint64) *latticeSolid2 {
	l := &latticeSolid2{n: [2]int{nx, ny}, inside: make([]bool, nx*ny), shift: 0.5}
	for i := range l.inside {
		l.inside[i] = bits&(1<<uint(i)) != 0
	}
	return l
}

// 2-D edge code: (x*16+y)*2+axis
func snapEdge2(c model2d.Coord) (code int, frac float64, ok bool) {
	arr := [2]float64{c.X, c.Y}
	axis := -1
	var lo [2]int
	for i, v := range arr {
		f := floorShift(v, 0)
		lo[i] = f
		if float64(f) != v {
			if axis >= 0 {
				return 0, 0, false
			}
			axis = i
			frac = v - float64(f)
		}
	}
	if axis < 0 || lo[0] < 0 || lo[1] < 0 || lo[0] > 15 || lo[1] > 15 {
		return 0, 0, false
	}
	return (lo[0]*16+lo[1])*2 + axis, frac, true
}

func sortSegs(ts [][2]int) {
	sort.Slice(ts, func(i, j int) bool {
		if ts[i][0] != ts[j][0] {
			return ts[i][0] < ts[j][0]
		}
		return ts[i][1] < ts[j][1]
	})
}

func blackBoxTable2() [16][][2]int {
	var res [16][][2]int
	for bits := 0; bits < 16; bits++ {
		s := newLatticeSolid2(2, 2, uint64(bits))
		m := model2d.MarchingSquares(s, 1)
		m.Iterate(func(t *model2d.Segment) {
			var seg [2]int
			for i, c := range t {
				code, _, ok := snapEdge2(c)
				if !ok {
					fatal("black-box table: 2-D vertex %v is not on a lattice edge", c)
				}
				x, y, a := code/2/16, code/2%16, code%2
				hi := [2]int{x, y}
				hi[a]++
				if x < 1 || y < 1 || hi[0] > 2 || hi[1] > 2 {
					return
				}
				seg[i] = code
			}
			res[bits] = append(res[bits], seg)
		})
		sortSegs(res[bits])
	}
	return res
}

func exportedTable2() [16][][2]int {
	var res [16][][2]int
	tab := model2d.VerifMsLookupTable()
	corner := func(k uint8) [2]int { return [2]int{1 + int(k%2), 1 + int(k/2)} }
	edge := func(j, k uint8) int {
		a, b := corner(j), corner(k)
		lo := a
		axis := -1
		for i := range a {
			if a[i] != b[i] {
				if axis >= 0 {
					fatal("2-D table edge %d-%d is not a square edge", j, k)
				}
				axis = i
				if b[i] < a[i] {
					lo[i] = b[i]
				}
			}
		}
		if axis < 0 {
			fatal("2-D table edge %d-%d is degenerate", j, k)
		}
		return (lo[0]*16+lo[1])*2 + axis
	}
	for bits := range tab {
		for _, t := range tab[bits] {
			res[bits] = append(res[bits], [2]int{edge(t[0], t[1]), edge(t[2], t[3])})
		}
		sortSegs(res[bits])
	}
	return res
}

func init() {
	// c01-table out=MCTable.tla : writes ImplTable (3-D, rows of 6 corner ids) and ImplTable2
	// (2-D, rows of 4 corner ids); rows on which a one-cell run of the real mesher disagrees go to <out>.mismatch.json.
	register("c01-table", func(a args) {
		// the exported table is what the specifications reason about; a one-cell run of the real
		// mesher that does not follow it is reported (a verdict about the code, not an infrastructure error)
		mismatches := []map[string]any{}
		e3, b3 := exportedTable3(), blackBoxTable3()
		for bits := range e3 {
			if fmt.Sprint(e3[bits]) != fmt.Sprint(b3[bits]) {
				mismatches = append(mismatches, map[string]any{"dim": 3, "row": bits, "export": e3[bits], "mesher": b3[bits]})
			}
		}
		e2, b2 := exportedTable2(), blackBoxTable2()
		for bits := range e2 {
			if fmt.Sprint(e2[bits]) != fmt.Sprint(b2[bits]) {
				mismatches = append(mismatches, map[string]any{"dim": 2, "row": bits, "export": e2[bits], "mesher": b2[bits]})
			}
		}
		writeJSONFile(a.str("out", "MCTable.tla")+".mismatch.json", mismatches)
		var sb strings.Builder
		sb.WriteString("------------------------------- MODULE MCTable -------------------------------\n")
		sb.WriteString("\\* GENERATED by `drv c01-table` from the code under test; do not edit.\n")
		sb.WriteString("ImplTable == <<\n")
		tab := model3d.VerifMcLookupTable()
		for i, row := range tab {
			sb.WriteString("  <<")
			for j, t := range row {
				if j > 0 {
					sb.WriteString(", ")
				}
				sb.WriteString(fmt.Sprintf("<<%d,%d,%d,%d,%d,%d>>", t[0], t[1], t[2], t[3], t[4], t[5]))
			}
			sb.WriteString(">>")
			if i < 255 {
				sb.WriteString(",")
			}
			sb.WriteString("\n")
		}
		sb.WriteString(">>\nImplTable2 == <<\n")
		tab2 := model2d.VerifMsLookupTable()
		for i, row := range tab2 {
			sb.WriteString("  <<")
			for j, t := range row {
				if j > 0 {
					sb.WriteString(", ")
				}
				sb.WriteString(fmt.Sprintf("<<%d,%d,%d,%d>>", t[0], t[1], t[2], t[3]))
			}
			sb.WriteString(">>")
			if i < 15 {
				sb.WriteString(",")
			}
			sb.WriteString("\n")
		}
		sb.WriteString(">>\n=============================================================================\n")
		if err := os.WriteFile(a.str("out", "MCTable.tla"), []byte(sb.String()), 0o644); err != nil {
			fatal("write: %v", err)
		}
	})
}
