package main

// C12: the region-filter queries of MarchingCubesFilter / MarchingSquaresFilter, observed by the
// harness's own filter and judged against spec/pipeline/BlockPieces.tla by BlockJudge.

import (
	"math"
	"math/rand"
	"runtime"
	"sync"

	"github.com/unixpickle/model3d/model2d"
	"github.com/unixpickle/model3d/model3d"
)

type blkQuery struct {
	Lo  [3]int `json:"lo"`
	Hi  [3]int `json:"hi"`
	Ans bool   `json:"ans"`
}

type blkRecord struct {
	Id    int        `json:"id"`
	Site  string     `json:"site"`
	Dim   int        `json:"dim"`
	Procs int        `json:"procs"`
	Root  [3]int     `json:"root"`
	Mv1   int        `json:"mv1"`
	Mv2   int        `json:"mv2"`
	Panic string     `json:"panic"`
	Q     []blkQuery `json:"q"`
}

// the filter: the exact one, plus pseudo-random extra "true" answers that are a function of the block
func blkExtra(lo, hi [3]int, salt int) bool {
	h := salt
	for i := 0; i < 3; i++ {
		h = h*31 + lo[i]*7 + hi[i]*13
	}
	return (h%5+5)%5 == 0
}

func runBlocks3(id int, l *latticeSolid3, procs, salt int) blkRecord {
	rec := blkRecord{Id: id, Site: "MarchingCubesFilter", Dim: 3, Procs: procs, Q: []blkQuery{},
		Root: [3]int{l.n[0] + 1, l.n[1] + 1, l.n[2] + 1}, Mv2: 64}
	vol := rec.Root[0] * rec.Root[1] * rec.Root[2]
	rec.Mv1 = vol / 4096
	if rec.Mv1 < 64 {
		rec.Mv1 = 64
	}
	var mu sync.Mutex
	exact := exactFilter3(l, nil)
	filter := func(r *model3d.Rect) bool {
		var q blkQuery
		mn, mx := r.MinVal.Array(), r.MaxVal.Array()
		for i := 0; i < 3; i++ {
			q.Lo[i], q.Hi[i] = int(math.Round(mn[i])), int(math.Round(mx[i]))
		}
		q.Ans = exact(r) || blkExtra(q.Lo, q.Hi, salt)
		mu.Lock()
		rec.Q = append(rec.Q, q)
		mu.Unlock()
		return q.Ans
	}
	old := runtime.GOMAXPROCS(procs)
	defer runtime.GOMAXPROCS(old)
	rec.Panic = protect(func() { model3d.MarchingCubesFilter(l, filter, 1) })
	return rec
}

func runBlocks2(id int, l *latticeSolid2, procs, salt int) blkRecord {
	rec := blkRecord{Id: id, Site: "MarchingSquaresFilter", Dim: 2, Procs: procs, Q: []blkQuery{},
		Root: [3]int{l.n[0] + 1, l.n[1] + 1, 1}, Mv2: 64}
	rec.Mv1 = rec.Root[0] * rec.Root[1] / 4096
	if rec.Mv1 < 64 {
		rec.Mv1 = 64
	}
	var mu sync.Mutex
	exact := exactFilter2(l, nil)
	filter := func(r *model2d.Rect) bool {
		q := blkQuery{Hi: [3]int{0, 0, 1}}
		mn, mx := r.MinVal.Array(), r.MaxVal.Array()
		for i := 0; i < 2; i++ {
			q.Lo[i], q.Hi[i] = int(math.Round(mn[i])), int(math.Round(mx[i]))
		}
		q.Ans = exact(r) || blkExtra(q.Lo, q.Hi, salt)
		mu.Lock()
		rec.Q = append(rec.Q, q)
		mu.Unlock()
		return q.Ans
	}
	old := runtime.GOMAXPROCS(procs)
	defer runtime.GOMAXPROCS(old)
	rec.Panic = protect(func() { model2d.MarchingSquaresFilter(l, filter, 1) })
	return rec
}

func init() {
	// c12-blocks out= stats= rounds=N seed=S
	register("c12-blocks", func(a args) {
		out := newNDWriter(a.str("out", "records.ndjson"))
		defer out.close()
		rng := rand.New(rand.NewSource(int64(a.int("seed", 1))*41 + 9))
		stats := map[string]int{}
		id := 0
		emit := func(rec blkRecord) {
			stats["records"]++
			stats["queries"] += len(rec.Q)
			if len(rec.Q) > 3 {
				stats["nonempty"]++ // the root was split
			}
			out.write(rec)
		}
		for round := 0; round < a.int("rounds", 1); round++ {
			for _, dims := range [][3]int{{3, 3, 3}, {6, 5, 4}, {7, 7, 7}, {12, 5, 3}, {9, 10, 11}, {14, 14, 2}, {13, 14, 12}} {
				l := newLatticeSolid3(dims[0], dims[1], dims[2], 0)
				dens := 0.02 + 0.2*rng.Float64()
				for j := range l.inside {
					l.inside[j] = rng.Float64() < dens
				}
				id++
				emit(runBlocks3(id, l, []int{1, 3, 16}[rng.Intn(3)], rng.Intn(1000)))
			}
			for _, dims := range [][2]int{{5, 5}, {12, 11}, {14, 14}, {14, 9}, {15, 4}} {
				l := newLatticeSolid2(dims[0], dims[1], 0)
				dens := 0.02 + 0.2*rng.Float64()
				for j := range l.inside {
					l.inside[j] = rng.Float64() < dens
				}
				id++
				emit(runBlocks2(id, l, []int{1, 3, 16}[rng.Intn(3)], rng.Intn(1000)))
			}
		}
		writeJSONFile(a.str("stats", "stats.json"), stats)
	})
}
