package main

// 2-D outlines from the real code (marching squares family, Bitmap.Mesh) as exact integer
// records for spec/lattice/Mesh2Judge.tla.

import (
	"math"
	"math/rand"
	"runtime"
	"sort"
	"strings"

	"github.com/unixpickle/model3d/model2d"
)

type mesh2Record struct {
	Id      int      `json:"id"`
	Kind    string   `json:"kind"`
	Variant string   `json:"variant"`
	Cfg     string   `json:"cfg"`
	Panic   string   `json:"panic"`
	N       []int    `json:"n"`
	Inside  []int    `json:"inside"`
	D       int      `json:"d"`
	Verts   [][2]int `json:"verts"`
	Segs    [][2]int `json:"segs"`
	Esegs   [][2]int `json:"esegs"`
	Unsnap  int      `json:"unsnap"`
	Den     int      `json:"den"`
	Tnum    int      `json:"tnum"`
	Pos     [][2]int `json:"pos"`
	// see latRecord
	Coarse   [][2]int `json:"coarse"`
	Margin16 int      `json:"margin16"`
}

// mesh2ToRecord projects a 2-D mesh onto integer coordinates in units of 1/d.
func mesh2ToRecord(rec *mesh2Record, m *model2d.Mesh, d int, lattice bool, den int) {
	rec.D = d
	idx := map[model2d.Coord]int{}
	segs := m.SegmentSlice()
	sort.Slice(segs, func(i, j int) bool {
		a, b := segs[i], segs[j]
		for k := 0; k < 2; k++ {
			if a[k].X != b[k].X {
				return a[k].X < b[k].X
			}
			if a[k].Y != b[k].Y {
				return a[k].Y < b[k].Y
			}
		}
		return false
	})
	vert := func(c model2d.Coord) int {
		if i, ok := idx[c]; ok {
			return i
		}
		x, y := c.X*float64(d), c.Y*float64(d)
		rx, ry := math.Round(x), math.Round(y)
		if math.Abs(x-rx) > 1e-9 || math.Abs(y-ry) > 1e-9 {
			rec.Unsnap++
		}
		rec.Verts = append(rec.Verts, [2]int{int(rx), int(ry)})
		idx[c] = len(rec.Verts)
		return len(rec.Verts)
	}
	seen := map[int]bool{}
	for _, s := range segs {
		rec.Segs = append(rec.Segs, [2]int{vert(s[0]), vert(s[1])})
		if lattice {
			var es [2]int
			ok := true
			for i, c := range s {
				code, frac, snapped := snapEdge2(c)
				if !snapped {
					ok = false
					continue
				}
				es[i] = code
				if den > 0 && !seen[code] {
					seen[code] = true
					num := frac * float64(den)
					if math.Abs(num-math.Round(num)) > 1e-9 {
						rec.Unsnap++
					}
					rec.Pos = append(rec.Pos, [2]int{code, int(math.Round(num))})
				}
			}
			if !ok {
				rec.Unsnap++
			} else {
				rec.Esegs = append(rec.Esegs, es)
			}
		}
	}
}

func exactFilter2(l *latticeSolid2, extra func() bool) func(*model2d.Rect) bool {
	return func(r *model2d.Rect) bool {
		lo := [2]int{int(math.Round(r.MinVal.X)), int(math.Round(r.MinVal.Y))}
		hi := [2]int{int(math.Round(r.MaxVal.X)), int(math.Round(r.MaxVal.Y))}
		for y := lo[1]; y < hi[1]; y++ {
			for x := lo[0]; x < hi[0]; x++ {
				first := l.at(x, y)
				if l.at(x+1, y) != first || l.at(x, y+1) != first || l.at(x+1, y+1) != first {
					return true
				}
			}
		}
		if extra != nil {
			return extra()
		}
		return false
	}
}

// scaledLattice2 is the lattice solid in units of k (a power of two, so scaling is exact)
type scaledLattice2 struct {
	l *latticeSolid2
	k float64
}

func (s scaledLattice2) Min() model2d.Coord { return s.l.Min().Scale(s.k) }
func (s scaledLattice2) Max() model2d.Coord { return s.l.Max().Scale(s.k) }
func (s scaledLattice2) Contains(c model2d.Coord) bool {
	return s.l.Contains(c.Scale(1 / s.k))
}

type ms2Variant struct {
	name string
	run  func(l *latticeSolid2, rng *rand.Rand) (*model2d.Mesh, int)
	c2f  *[2]float64
}

// geomFilter2: does the closed rectangle meet the boundary of the lattice solid?  (see geomFilter3)
func geomFilter2(l *latticeSolid2) func(*model2d.Rect) bool {
	s := l.shift
	return func(r *model2d.Rect) bool {
		lo, hi := r.MinVal.Array(), r.MaxVal.Array()
		for y := 1; y <= l.n[1]+1; y++ {
			for x := 1; x <= l.n[0]+1; x++ {
				p := [2]int{x, y}
				for a := 0; a < 2; a++ {
					q := p
					q[a]--
					if l.at(p[0], p[1]) == l.at(q[0], q[1]) {
						continue
					}
					hit := true
					for b := 0; b < 2; b++ {
						flo := math.Max(float64(p[b])-s, 1)
						fhi := math.Min(float64(p[b])+1-s, float64(l.n[b]))
						if b == a {
							flo = math.Min(flo, float64(l.n[b]))
							fhi = flo
						}
						if fhi < lo[b] || flo > hi[b] {
							hit = false
						}
					}
					if hit {
						return true
					}
				}
			}
		}
		return false
	}
}

func ms2Variants() map[string]ms2Variant {
	vs := []ms2Variant{
		{"MS", func(l *latticeSolid2, _ *rand.Rand) (*model2d.Mesh, int) { return model2d.MarchingSquares(l, 1), 0 }, nil},
		{"MSFilterTrue", func(l *latticeSolid2, _ *rand.Rand) (*model2d.Mesh, int) {
			return model2d.MarchingSquaresFilter(l, func(*model2d.Rect) bool { return true }, 1), 0
		}, nil},
		{"MSFilterExact", func(l *latticeSolid2, _ *rand.Rand) (*model2d.Mesh, int) {
			return model2d.MarchingSquaresFilter(l, exactFilter2(l, nil), 1), 0
		}, nil},
		{"MSFilterExactPlus", func(l *latticeSolid2, rng *rand.Rand) (*model2d.Mesh, int) {
			// the filter is called from one goroutine at a time per block, but guard anyway
			ch := make(chan struct{}, 1)
			ch <- struct{}{}
			extra := func() bool {
				<-ch
				defer func() { ch <- struct{}{} }()
				return rng.Intn(2) == 0
			}
			return model2d.MarchingSquaresFilter(l, exactFilter2(l, extra), 1), 0
		}, nil},
		{"MSSearch3", func(l *latticeSolid2, _ *rand.Rand) (*model2d.Mesh, int) {
			return model2d.MarchingSquaresSearch(l, 1, 3), 16
		}, nil},
		{"MSSearch5", func(l *latticeSolid2, _ *rand.Rand) (*model2d.Mesh, int) {
			return model2d.MarchingSquaresSearch(l, 1, 5), 64
		}, nil},
		{"MSSearch5tiny", func(l *latticeSolid2, _ *rand.Rand) (*model2d.Mesh, int) {
			// the same problem at scale 2^-24 (spacing 6e-8): the answer must scale with it
			k := math.Ldexp(1, -24)
			m := model2d.MarchingSquaresSearch(scaledLattice2{l, k}, k, 5)
			return m.Scale(1 / k), 64
		}, nil},
		{"MSSearchFilter3", func(l *latticeSolid2, _ *rand.Rand) (*model2d.Mesh, int) {
			return model2d.MarchingSquaresSearchFilter(l, exactFilter2(l, nil), 1, 3), 16
		}, nil},
		{"MSConj3", func(l *latticeSolid2, _ *rand.Rand) (*model2d.Mesh, int) {
			return model2d.MarchingSquaresConj(l, 2, 3, &model2d.Scale{Scale: 2},
				&model2d.Translate{Offset: model2d.XY(4, -2)}), 16
		}, nil},
		{"MSC2F", func(l *latticeSolid2, _ *rand.Rand) (*model2d.Mesh, int) {
			return model2d.MarchingSquaresC2F(l, 2, 1, 0, 3), 16
		}, nil},
		{"MSC2Fx0", func(l *latticeSolid2, _ *rand.Rand) (*model2d.Mesh, int) {
			return model2d.MarchingSquaresC2F(l, 2, 1, 0, 3), 16
		}, &[2]float64{2, 0}},
		{"MSC2Fx3", func(l *latticeSolid2, _ *rand.Rand) (*model2d.Mesh, int) {
			return model2d.MarchingSquaresC2F(l, 2, 1, 3, 3), 16
		}, &[2]float64{2, 3}},
		{"MSC2Fx6", func(l *latticeSolid2, _ *rand.Rand) (*model2d.Mesh, int) {
			return model2d.MarchingSquaresC2F(l, 2, 1, 6, 3), 16
		}, &[2]float64{2, 6}},
		{"MSFilterGeom", func(l *latticeSolid2, _ *rand.Rand) (*model2d.Mesh, int) {
			old := l.shift
			l.shift = 1.0 / 2048
			defer func() { l.shift = old }()
			return model2d.MarchingSquaresFilter(l, geomFilter2(l), 1), 0
		}, nil},
		{"MSFilterGeomHi", func(l *latticeSolid2, _ *rand.Rand) (*model2d.Mesh, int) {
			old := l.shift
			l.shift = 2047.0 / 2048
			defer func() { l.shift = old }()
			return model2d.MarchingSquaresFilter(l, geomFilter2(l), 1), 0
		}, nil},
	}
	out := map[string]ms2Variant{}
	for _, v := range vs {
		out[v.name] = v
	}
	return out
}

func bits2(l *latticeSolid2) []int {
	out := make([]int, len(l.inside))
	for i, b := range l.inside {
		if b {
			out[i] = 1
		}
	}
	return out
}

func runMS2(id int, l *latticeSolid2, v ms2Variant, procs int, rng *rand.Rand) mesh2Record {
	rec := mesh2Record{Id: id, Kind: "ms", Variant: v.name, Cfg: "procs=" + itoa(procs), N: l.n[:], Inside: bits2(l),
		Verts: [][2]int{}, Segs: [][2]int{}, Esegs: [][2]int{}, Pos: [][2]int{}, Coarse: [][2]int{}}
	if procs > 0 {
		old := runtime.GOMAXPROCS(procs)
		defer runtime.GOMAXPROCS(old)
	}
	rec.Panic = protect(func() {
		m, den := v.run(l, rng)
		rec.Den = den
		if den > 0 {
			rec.Tnum = den - den*latShiftNum/16
		}
		mesh2ToRecord(&rec, m, 64, true, den)
		if v.c2f != nil {
			rec.Margin16 = int(math.Floor(16*(2*v.c2f[0]*math.Sqrt(3)+v.c2f[1]))) - 1
			for _, c := range model2d.MarchingSquaresSearch(l, v.c2f[0], 3).VertexSlice() {
				rec.Coarse = append(rec.Coarse, [2]int{int(math.Round(c.X * 16)), int(math.Round(c.Y * 16))})
			}
		}
	})
	return rec
}

func runBitmap(id, w, h int, bits uint64, randBits []bool) mesh2Record {
	bmp := model2d.NewBitmap(w, h)
	inside := make([]int, w*h)
	for i := 0; i < w*h; i++ {
		b := false
		if randBits != nil {
			b = randBits[i]
		} else {
			b = bits&(1<<uint(i)) != 0
		}
		if b {
			inside[i] = 1
			bmp.Set(i%w, i/w, true)
		}
	}
	rec := mesh2Record{Id: id, Kind: "bitmap", Variant: "Bitmap.Mesh", N: []int{w, h}, Inside: inside,
		Verts: [][2]int{}, Segs: [][2]int{}, Esegs: [][2]int{}, Pos: [][2]int{}, Coarse: [][2]int{}}
	rec.Panic = protect(func() {
		mesh2ToRecord(&rec, bmp.Mesh(), 8, false, 0)
	})
	return rec
}

func itoa(n int) string {
	if n == 0 {
		return "0"
	}
	s := ""
	for n > 0 {
		s = string(rune('0'+n%10)) + s
		n /= 10
	}
	return s
}

func blocky2(rng *rand.Rand, n, feat int) *latticeSolid2 {
	l := newLatticeSolid2(n, n, 0)
	for k := 0; k < 2+rng.Intn(3); k++ {
		var sz, lo [2]int
		for a := 0; a < 2; a++ {
			sz[a] = feat + rng.Intn(n-feat+1)
			lo[a] = 1 + rng.Intn(n-sz[a]+1)
		}
		for y := lo[1]; y < lo[1]+sz[1]; y++ {
			for x := lo[0]; x < lo[0]+sz[0]; x++ {
				l.inside[x-1+n*(y-1)] = true
			}
		}
	}
	return l
}

func satellite2(rng *rand.Rand, n int) *latticeSolid2 {
	l := newLatticeSolid2(n, n, 0)
	var lo, sz [2]int
	for a := 0; a < 2; a++ {
		sz[a] = 2 + rng.Intn(3)
		lo[a] = 1 + rng.Intn(2)
	}
	for y := lo[1]; y < lo[1]+sz[1]; y++ {
		for x := lo[0]; x < lo[0]+sz[0]; x++ {
			l.inside[x-1+n*(y-1)] = true
		}
	}
	for k := 0; k < 1+rng.Intn(3); k++ {
		p := [2]int{1 + rng.Intn(n), 1 + rng.Intn(n)}
		if k == 0 {
			a := rng.Intn(2)
			p[a] = lo[a] + sz[a] + 2 + rng.Intn(n)
			if p[a] > n {
				p[a] = n - rng.Intn(3)
			}
		}
		axis, length := rng.Intn(2), 1+rng.Intn(2)
		for i := 0; i < length && p[axis] <= n; i++ {
			l.inside[p[0]-1+n*(p[1]-1)] = true
			p[axis]++
		}
	}
	return l
}

func aligned2(rng *rand.Rand, n int, f func(*latticeSolid2)) {
	for a := 0; a < 2; a++ {
		for k := 2; k <= n; k++ {
			for _, up := range []bool{true, false} {
				l := newLatticeSolid2(n, n, 0)
				var lo, hi [2]int
				for b := 0; b < 2; b++ {
					lo[b] = 2 + rng.Intn(n/2-1)
					hi[b] = n/2 + 1 + rng.Intn(n/2-1)
				}
				if up {
					lo[a], hi[a] = k, k+rng.Intn(3)
				} else {
					lo[a], hi[a] = k-rng.Intn(3), k
				}
				for y := lo[1]; y <= hi[1]; y++ {
					for x := lo[0]; x <= hi[0]; x++ {
						if x >= 1 && y >= 1 && x <= n && y <= n {
							l.inside[x-1+n*(y-1)] = true
						}
					}
				}
				f(l)
			}
		}
	}
}

func init() {
	// c01-mesh2 out= stats= plan=  with items
	//   ms:all:W,H:variants:procs | ms:rand:W,H:COUNT:variants:procs | ms:blocky:N:COUNT:variants:procs
	//   bitmap:all:W,H | bitmap:rand:W,H:COUNT
	register("c01-mesh2", func(a args) {
		out := newNDWriter(a.str("out", "records.ndjson"))
		defer out.close()
		rng := rand.New(rand.NewSource(int64(a.int("seed", 1))))
		variants := ms2Variants()
		id := 0
		stats := map[string]int{}
		count := func(rec mesh2Record) {
			stats["records"]++
			stats["triangles"] += len(rec.Segs)
			if len(rec.Segs) > 0 {
				stats["nonempty"]++
			}
			if rec.Margin16 > 0 {
				stats["guarded"]++
			}
			out.write(rec)
		}
		emitMS := func(l *latticeSolid2, vnames, procs string) {
			for _, vn := range strings.Split(vnames, ",") {
				v, ok := variants[vn]
				if !ok {
					fatal("unknown 2-D variant %q", vn)
				}
				for _, p := range strings.Split(procs, ",") {
					id++
					l.shift = float64(latShiftNum) / 16
					count(runMS2(id, l, v, atoi(p), rng))
				}
			}
		}
		for _, item := range strings.Split(a.str("plan", ""), ";") {
			if item == "" {
				continue
			}
			f := strings.Split(item, ":")
			dims := func(s string) (int, int) {
				g := strings.Split(s, ",")
				return atoi(g[0]), atoi(g[1])
			}
			switch f[0] + ":" + f[1] {
			case "ms:all":
				w, h := dims(f[2])
				for bits := uint64(0); bits < 1<<uint(w*h); bits++ {
					emitMS(newLatticeSolid2(w, h, bits), f[3], f[4])
				}
			case "ms:rand":
				w, h := dims(f[2])
				for i := 0; i < atoi(f[3]); i++ {
					l := newLatticeSolid2(w, h, 0)
					dens := 0.15 + 0.7*rng.Float64()
					for j := range l.inside {
						l.inside[j] = rng.Float64() < dens
					}
					emitMS(l, f[4], f[5])
				}
			case "ms:blocky":
				for i := 0; i < atoi(f[3]); i++ {
					emitMS(blocky2(rng, atoi(f[2]), 4), f[4], f[5])
				}
			case "ms:aligned":
				aligned2(rng, atoi(f[2]), func(l *latticeSolid2) { emitMS(l, f[3], f[4]) })
			case "ms:sat":
				for i := 0; i < atoi(f[3]); i++ {
					emitMS(satellite2(rng, atoi(f[2])), f[4], f[5])
				}
			case "bitmap:all":
				w, h := dims(f[2])
				for bits := uint64(0); bits < 1<<uint(w*h); bits++ {
					id++
					count(runBitmap(id, w, h, bits, nil))
				}
			case "bitmap:rand":
				w, h := dims(f[2])
				for i := 0; i < atoi(f[3]); i++ {
					rb := make([]bool, w*h)
					dens := 0.2 + 0.6*rng.Float64()
					for j := range rb {
						rb[j] = rng.Float64() < dens
					}
					id++
					count(runBitmap(id, w, h, 0, rb))
				}
			default:
				fatal("bad plan item %q", item)
			}
		}
		writeJSONFile(a.str("stats", "stats.json"), stats)
	})
}
