package main

// C18: chart decomposition, disc parameterisation, atlas packing and UV lookup of the real code,
// recorded for spec/param/ChartJudge.tla.

import (
	"encoding/json"
	"fmt"
	"math"
	"math/rand"
	"os"
	"sort"
	"strconv"
	"strings"
	"time"

	"github.com/unixpickle/model3d/model2d"
	"github.com/unixpickle/model3d/model3d"
	"github.com/unixpickle/model3d/numerical"
)

type chartRec struct {
	ID      int       `json:"id"`
	Kind    string    `json:"kind"`
	Site    string    `json:"site"`
	Mesh    string    `json:"mesh"`
	NFaces  int       `json:"nfaces"`
	MaxSize int       `json:"maxsize"`
	Charts  [][][]int `json:"charts"`
	IDs     [][]int   `json:"ids"`
	Panic   string    `json:"panic"`
}

func paramMesh(name string) *model3d.Mesh {
	switch name {
	case "disc":
		// an open 3x3 grid of quads
		m := model3d.NewMesh()
		for i := 0; i < 3; i++ {
			for j := 0; j < 3; j++ {
				p := func(a, b int) model3d.Coord3D {
					return model3d.XYZ(float64(a), float64(b), 0.1*float64(a*a)+0.05*float64(b))
				}
				m.AddQuad(p(i, j), p(i+1, j), p(i+1, j+1), p(i, j+1))
			}
		}
		return m
	case "annulus":
		m := paramMesh("disc")
		// remove the centre quad
		var del []*model3d.Triangle
		m.Iterate(func(t *model3d.Triangle) {
			c := t[0].Add(t[1]).Add(t[2]).Scale(1.0 / 3)
			if c.X > 1 && c.X < 2 && c.Y > 1 && c.Y < 2 {
				del = append(del, t)
			}
		})
		for _, t := range del {
			m.Remove(t)
		}
		return m
	case "voxG1":
		// a voxel ring (genus 1)
		var cells [][3]int
		for x := 0; x < 3; x++ {
			for y := 0; y < 3; y++ {
				if x != 1 || y != 1 {
					cells = append(cells, [3]int{x, y, 0})
				}
			}
		}
		return opsVoxelMesh(cells)
	case "voxG2":
		var cells [][3]int
		for x := 0; x < 5; x++ {
			for y := 0; y < 3; y++ {
				if !(y == 1 && (x == 1 || x == 3)) {
					cells = append(cells, [3]int{x, y, 0})
				}
			}
		}
		return opsVoxelMesh(cells)
	}
	m, _, _ := mesh3(name)
	return m
}

func chartsRecord(id int, site, mesh string, in *model3d.Mesh, maxSize int, run func(m *model3d.Mesh) []*model3d.Mesh) chartRec {
	rec := chartRec{ID: id, Kind: "charts", Site: site, Mesh: mesh, NFaces: in.NumTriangles(), MaxSize: maxSize,
		Charts: [][][]int{}, IDs: [][]int{}}
	// face identity by value (the decomposition copies the mesh), vertex names by coordinate
	faceID := map[model3d.Triangle]int{}
	for _, t := range in.TriangleSlice() {
		if _, ok := faceID[*t]; !ok {
			faceID[*t] = len(faceID) + 1
		}
	}
	names := map[model3d.Coord3D]int{}
	var res []*model3d.Mesh
	outcome, pan := withDeadline(60*time.Second, func() { res = run(in) })
	if outcome != "ok" {
		rec.Panic = outcome + " " + pan
		return rec
	}
	for _, ch := range res {
		var faces [][]int
		var ids []int
		for _, t := range ch.TriangleSlice() {
			f := []int{0, 0, 0}
			for k, c := range t {
				if _, ok := names[c]; !ok {
					names[c] = len(names) + 1
				}
				f[k] = names[c]
			}
			faces = append(faces, f)
			ids = append(ids, faceID[*t]) // 0 if the chart contains a face that is not an input face
		}
		if faces == nil {
			faces, ids = [][]int{}, []int{}
		}
		rec.Charts = append(rec.Charts, faces)
		rec.IDs = append(rec.IDs, ids)
	}
	return rec
}

type floaterRec struct {
	ID       int    `json:"id"`
	Kind     string `json:"kind"`
	Site     string `json:"site"`
	Mesh     string `json:"mesh"`
	Mean     bool   `json:"mean"`
	NoFlip   bool   `json:"noflip"`
	Boundary bool   `json:"boundary"`
	Extend   bool   `json:"extend"` // ExtendBoundaryUVs records only (true otherwise)
	Note     string `json:"note,omitempty"`
	Panic    string `json:"panic"`
}

// stretchOpt: run StretchMinimizingParameterization instead of Floater97 (same boundary / no-flip clauses; the
// weighted-mean clause is not asked: the weights are re-estimated on the way)
type stretchOpt struct {
	iters int
	eta   float64
}

func fanDisc(rng *rand.Rand, n int) *model3d.Mesh {
	// one interior vertex surrounded by an irregular rim
	m := model3d.NewMesh()
	c := model3d.XYZ(0.3, -0.2, 0.5)
	rim := make([]model3d.Coord3D, n)
	for i := range rim {
		a := 2 * math.Pi * (float64(i) + 0.6*rng.Float64()) / float64(n)
		r := 1 + rng.Float64()
		rim[i] = model3d.XYZ(r*math.Cos(a), r*math.Sin(a), 0.3*rng.Float64())
	}
	for i := range rim {
		m.Add(&model3d.Triangle{c, rim[i], rim[(i+1)%n]})
	}
	return m
}

// hubDisc: an interior hub whose n neighbours are interior vertices too (a long row of the linear system),
// inside a rim of n vertices
func hubDisc(rng *rand.Rand, n int) *model3d.Mesh {
	m := model3d.NewMesh()
	c := model3d.XYZ(0.1, 0.05*rng.Float64(), 0.6)
	inner, outer := make([]model3d.Coord3D, n), make([]model3d.Coord3D, n)
	for i := range inner {
		a := 2 * math.Pi * (float64(i) + 0.3*rng.Float64()) / float64(n)
		inner[i] = model3d.XYZ(0.5*math.Cos(a), 0.5*math.Sin(a), 0.3+0.1*rng.Float64())
		outer[i] = model3d.XYZ(1.2*math.Cos(a), 1.2*math.Sin(a), 0.1*rng.Float64())
	}
	for i := range inner {
		j := (i + 1) % n
		m.Add(&model3d.Triangle{c, inner[i], inner[j]})
		m.Add(&model3d.Triangle{inner[i], outer[i], outer[j]})
		m.Add(&model3d.Triangle{inner[i], outer[j], inner[j]})
	}
	return m
}

// symFan: one interior vertex above the centre of the square rim (1,0) (0,1) (-1,0) (0,-1)
func symFan() *model3d.Mesh {
	m := model3d.NewMesh()
	c := model3d.XYZ(0, 0, 1)
	rim := []model3d.Coord3D{model3d.XYZ(1, 0, 0), model3d.XYZ(0, 1, 0), model3d.XYZ(-1, 0, 0), model3d.XYZ(0, -1, 0)}
	for i := range rim {
		m.Add(&model3d.Triangle{c, rim[i], rim[(i+1)%4]})
	}
	return m
}

func floaterRun(id int, name string, disc *model3d.Mesh, weighting string, bnd string) floaterRec {
	return floaterRunX(id, name, disc, weighting, bnd, nil)
}

func floaterRunX(id int, name string, disc *model3d.Mesh, weighting string, bnd string, stretch *stretchOpt) floaterRec {
	rec := floaterRec{ID: id, Kind: "floater", Site: "Floater97:" + weighting + ":" + bnd, Mesh: name, Mean: true, NoFlip: true, Boundary: true, Extend: true}
	if stretch != nil {
		rec.Site = fmt.Sprintf("StretchMinimizingParameterization:%s:%s:iters=%d:eta=%g", weighting, bnd, stretch.iters, stretch.eta)
	}
	degenerateUV := false
	outcome, pan := withDeadline(60*time.Second, func() {
		var boundary *model3d.CoordMap[model2d.Coord]
		switch bnd {
		case "circle":
			boundary = model3d.CircleBoundary(disc)
		case "square":
			boundary = model3d.SquareBoundary(disc)
		case "diamond":
			// the rim of symFan mapped onto itself: a convex boundary whose coordinates cancel exactly,
			// so both right-hand sides of the linear system are exactly zero
			boundary = model3d.NewCoordMap[model2d.Coord]()
			for _, v := range disc.VertexSlice() {
				if v.Z == 0 {
					boundary.Store(v, v.XY())
				}
			}
		default:
			p := 4.0
			if len(bnd) > len("pnorm") {
				p, _ = strconv.ParseFloat(bnd[len("pnorm"):], 64)
			}
			boundary = model3d.PNormBoundary(disc, p)
			// the unit circle of the p-norm, the rim going round it once: consecutive vertices by angle
			// are joined by a rim edge of the disc
			type bv struct {
				k     model3d.Coord3D
				angle float64
			}
			var ring []bv
			boundary.Range(func(k model3d.Coord3D, v model2d.Coord) bool {
				norm := math.Pow(math.Pow(math.Abs(v.X), p)+math.Pow(math.Abs(v.Y), p), 1/p)
				if math.IsNaN(norm) || math.Abs(norm-1) > 1e-9 {
					rec.Boundary = false
					rec.Note = "boundary vertex not on the unit p-circle"
				}
				ring = append(ring, bv{k, math.Atan2(v.Y, v.X)})
				return true
			})
			sort.Slice(ring, func(i, j int) bool { return ring[i].angle < ring[j].angle })
			for i := range ring {
				if len(disc.Find(ring[i].k, ring[(i+1)%len(ring)].k)) != 1 {
					rec.Boundary = false
					rec.Note = "the rim does not go round the p-circle once in order"
				}
			}
			if len(ring) < 3 {
				rec.Boundary = false
			}
		}
		var weights *model3d.EdgeMap[float64]
		switch weighting {
		case "uniform":
			weights = model3d.Floater97UniformWeights(disc)
		case "chord":
			weights = model3d.Floater97InvChordLengthWeights(disc, 1)
		default:
			weights = model3d.Floater97ShapePreservingWeights(disc)
		}
		var solver numerical.LargeLinearSolver
		switch id % 4 {
		case 1:
			solver = &numerical.BiCGSTABSolver{MSETolerance: 1e-24} // a tolerance only, no iteration limit
		case 2:
			solver = &numerical.BiCGSTABSolver{MAETolerance: 1e-12}
		case 3:
			solver = &numerical.BiCGSTABSolver{MaxIters: 400, MAETolerance: 1e-12}
		}
		var param *model3d.CoordMap[model2d.Coord]
		if stretch != nil {
			// A boundary that is convex but not strictly so (the square) can force an interior vertex onto a side:
			// its triangles are then degenerate in the plane in exact arithmetic, their stretch is unbounded and the
			// re-weighting has nothing to work with.  Such discs (which ones depends on how the charts were cut) are
			// found by a plain Floater97 solve with a copy of the weights and are not put to the routine.
			wcopy := model3d.NewEdgeMap[float64]()
			weights.Range(func(k [2]model3d.Coord3D, v float64) bool {
				wcopy.Store(k, v)
				return true
			})
			first := model3d.Floater97(disc, boundary, wcopy, solver)
			disc.Iterate(func(t *model3d.Triangle) {
				a, b, c := first.Value(t[0]), first.Value(t[1]), first.Value(t[2])
				_, b0 := boundary.Load(t[0])
				_, b1 := boundary.Load(t[1])
				_, b2 := boundary.Load(t[2])
				if !(b0 && b1 && b2) && math.Abs((b.X-a.X)*(c.Y-a.Y)-(b.Y-a.Y)*(c.X-a.X)) < 1e-7 {
					degenerateUV = true
				}
			})
			if degenerateUV {
				return
			}
			// the weight maps of the library's own constructors as they are (they carry entries centred on boundary
			// vertices, which no solve reads)
			param = model3d.StretchMinimizingParameterization(disc, boundary, weights, solver, stretch.iters, stretch.eta, false)
		} else {
			param = model3d.Floater97(disc, boundary, weights, solver)
		}
		// boundary vertices stay where the boundary map put them
		boundary.Range(func(k model3d.Coord3D, v model2d.Coord) bool {
			if got, ok := param.Load(k); !ok || got.Dist(v) > 1e-12 {
				rec.Boundary = false
			}
			return true
		})
		// interior vertices: weighted mean of the neighbours (weights are directed: w(v -> n))
		for _, v := range disc.VertexSlice() {
			if _, ok := boundary.Load(v); ok || stretch != nil {
				continue
			}
			var sum model2d.Coord
			var wsum float64
			for _, n := range neighbours(disc, v) {
				w, ok := weights.Load([2]model3d.Coord3D{v, n})
				if !ok {
					rec.Note = "missing weight"
					continue
				}
				sum = sum.Add(param.Value(n).Scale(w))
				wsum += w
			}
			if wsum <= 0 || param.Value(v).Dist(sum.Scale(1/wsum)) > 1e-5 {
				rec.Mean = false
			}
		}
		// no triangle flips: all UV triangles have the same orientation and positive area
		sign := 0.0
		disc.Iterate(func(t *model3d.Triangle) {
			a, b, c := param.Value(t[0]), param.Value(t[1]), param.Value(t[2])
			cr := (b.X-a.X)*(c.Y-a.Y) - (b.Y-a.Y)*(c.X-a.X)
			if math.IsNaN(cr) {
				rec.NoFlip = false
			} else if math.Abs(cr) < 1e-7 {
				// degenerate (three vertices on one side of the square - boundary vertices, or an interior vertex all of
				// whose neighbours lie on that side): zero area in exact arithmetic, a sign of either kind from a solver
				// that is accurate to about 1e-9; not a flip
			} else if sign == 0 {
				sign = cr
			} else if (sign > 0) != (cr > 0) {
				rec.NoFlip = false
			}
		})
	})
	if outcome != "ok" {
		rec.Panic = outcome + " " + pan
	}
	if degenerateUV {
		rec.Note = "not decided: the boundary forces a triangle with an interior vertex to zero area"
	}
	return rec
}

// extendRun: ExtendBoundaryUVs on a Floater97 parameterisation.  Documented: it moves vertices of triangles on
// the boundary (a boundary vertex whose two boundary neighbours span a triangle with it) by at most maxDist so that
// these triangles are "not highly stretched or even fully degenerate".  Clause extend: nothing else moves, no
// vertex moves further than maxDist, no such triangle gets a smaller UV area, and one that was degenerate in UV but
// not in 3-D no longer is.
func extendRun(id int, name string, disc *model3d.Mesh, bnd string, maxDist float64, stats map[string]int) floaterRec {
	rec := floaterRec{ID: id, Kind: "floater", Site: fmt.Sprintf("ExtendBoundaryUVs:%s:maxDist=%g", bnd, maxDist), Mesh: name,
		Mean: true, NoFlip: true, Boundary: true, Extend: true}
	outcome, pan := withDeadline(60*time.Second, func() {
		boundary := model3d.CircleBoundary(disc)
		if bnd == "square" {
			boundary = model3d.SquareBoundary(disc)
		}
		param := model3d.Floater97(disc, boundary, model3d.Floater97UniformWeights(disc), nil)
		before := map[model3d.Coord3D]model2d.Coord{}
		param.Range(func(k model3d.Coord3D, v model2d.Coord) bool { before[k] = v; return true })
		model3d.ExtendBoundaryUVs(disc, param, maxDist)
		// the triangles whose three vertices are on the boundary with the middle one used by no other triangle
		ear := map[model3d.Coord3D]*model3d.Triangle{}
		disc.Iterate(func(t *model3d.Triangle) {
			for i, c := range t {
				_, b0 := boundary.Load(c)
				_, b1 := boundary.Load(t[(i+1)%3])
				_, b2 := boundary.Load(t[(i+2)%3])
				if b0 && b1 && b2 && len(disc.Find(c)) == 1 {
					ear[c] = t
				}
			}
		})
		area := func(t *model3d.Triangle, uv func(model3d.Coord3D) model2d.Coord) float64 {
			a, b, c := uv(t[0]), uv(t[1]), uv(t[2])
			return math.Abs((b.X-a.X)*(c.Y-a.Y)-(b.Y-a.Y)*(c.X-a.X)) / 2
		}
		n := 0
		param.Range(func(k model3d.Coord3D, v model2d.Coord) bool {
			n++
			d := v.Dist(before[k])
			if math.IsNaN(d) || d > maxDist*(1+1e-9) {
				rec.Extend = false
				rec.Note += " moved further than maxDist"
			}
			if t, ok := ear[k]; !ok {
				if v != before[k] {
					rec.Extend = false
					rec.Note += " a vertex that is not the tip of a boundary triangle moved"
				}
			} else {
				a0 := area(t, func(c model3d.Coord3D) model2d.Coord { return before[c] })
				a1 := area(t, param.Value)
				if d > 0 {
					stats["extend-moved"]++
				}
				if a1 < a0-1e-12 || (a0 < 1e-12 && t.Area() > 1e-9 && maxDist > 0 && !(a1 > 0)) {
					rec.Extend = false
					rec.Note += " boundary triangle more degenerate than before"
				}
			}
			return true
		})
		if n != len(before) {
			rec.Extend = false
		}
	})
	if outcome != "ok" {
		rec.Panic = outcome + " " + pan
	}
	return rec
}

type rectI struct {
	Lo []int `json:"lo"`
	Hi []int `json:"hi"`
}
type atlasRec struct {
	ID     int     `json:"id"`
	Kind   string  `json:"kind"`
	Site   string  `json:"site"`
	Mesh   string  `json:"mesh"`
	InUnit bool    `json:"inunit"`
	Rects  []rectI `json:"rects"`
	Bary   bool    `json:"bary"`
	Panic  string  `json:"panic"`
}

func atlasRun(id int, name string, m *model3d.Mesh) atlasRec {
	return atlasJudge(id, "BuildAutomaticUVMap", name, m.NumTriangles(), model2d.XY(0, 0), model2d.XY(1, 1), func() model3d.MeshUVMap {
		return model3d.BuildAutomaticUVMap(m, 64, false)
	})
}

// packRun: k fan-shaped charts (each parameterised on its own) packed into a w x h rectangle
func packRun(id int, rng *rand.Rand, k int, w, h float64) atlasRec {
	var params []model3d.MeshUVMap
	ntris := 0
	for i := 0; i < k; i++ {
		// a fan that is star-shaped around its centre in the xy projection (angular steps < 180 degrees),
		// so that the projection used as its chart has no overlapping triangles
		n := 4 + rng.Intn(3)
		disc := model3d.NewMesh()
		ctr := model3d.XYZ(0.1, -0.1, 0.5)
		rim := make([]model3d.Coord3D, n)
		for j := range rim {
			a := 2 * math.Pi * (float64(j) + 0.3*rng.Float64()) / float64(n)
			r := 1 + rng.Float64()
			rim[j] = model3d.XYZ(r*math.Cos(a), r*math.Sin(a), 0.3*rng.Float64())
		}
		for j := range rim {
			disc.Add(&model3d.Triangle{ctr, rim[j], rim[(j+1)%n]})
		}
		// shift the charts apart in 3-D so that their triangles are distinct objects of one surface
		disc = disc.Translate(model3d.XYZ(float64(5*i), 0, 0))
		mapping := model3d.NewCoordMap[model2d.Coord]()
		for _, v := range disc.VertexSlice() {
			uv := model2d.XY(v.X-float64(5*i), v.Y)
			if i%2 == 1 {
				// every other chart is laid out as a mirror image (clockwise UV triangles): a valid layout
				uv.X = -uv.X
			}
			mapping.Store(v, uv.Scale(1+0.5*rng.Float64()))
		}
		params = append(params, model3d.NewMeshUVMapForCoords(disc, mapping))
		ntris += disc.NumTriangles()
	}
	site := fmt.Sprintf("PackMeshUVMaps:%gx%g", w, h)
	return atlasJudge(id, site, fmt.Sprintf("%d fans", k), ntris, model2d.XY(0, 0), model2d.XY(w, h), func() model3d.MeshUVMap {
		return model3d.PackMeshUVMaps(model2d.XY(0, 0), model2d.XY(w, h), 1.0/64, params)
	})
}

func atlasJudge(id int, site, name string, ntris int, lo, hi model2d.Coord, build func() model3d.MeshUVMap) atlasRec {
	rec := atlasRec{ID: id, Kind: "atlas", Site: site, Mesh: name, InUnit: true, Bary: true, Rects: []rectI{}}
	outcome, pan := withDeadline(120*time.Second, func() {
		uv := build()
		if len(uv) != ntris {
			rec.Bary = false
		}
		for _, tri := range uv {
			for _, c := range tri {
				if !(c.X >= lo.X && c.X <= hi.X && c.Y >= lo.Y && c.Y <= hi.Y) {
					rec.InUnit = false
				}
			}
		}
		// charts = connected components of the UV triangulation (shared UV edges)
		type key [2]model2d.Coord
		parent := map[*model3d.Triangle]*model3d.Triangle{}
		var find func(t *model3d.Triangle) *model3d.Triangle
		find = func(t *model3d.Triangle) *model3d.Triangle {
			if parent[t] == t {
				return t
			}
			parent[t] = find(parent[t])
			return parent[t]
		}
		edgeOwner := map[key]*model3d.Triangle{}
		for t := range uv {
			parent[t] = t
		}
		for t, tri := range uv {
			for i := 0; i < 3; i++ {
				a, b := tri[i], tri[(i+1)%3]
				if a.X > b.X || (a.X == b.X && a.Y > b.Y) {
					a, b = b, a
				}
				k := key{a, b}
				if o, ok := edgeOwner[k]; ok {
					parent[find(t)] = find(o)
				} else {
					edgeOwner[k] = t
				}
			}
		}
		boxes := map[*model3d.Triangle]*rectI{}
		for t, tri := range uv {
			r := find(t)
			for _, c := range tri {
				lo := []int{int(math.Floor(c.X*1e6 - 1e-3)), int(math.Floor(c.Y*1e6 - 1e-3))}
				hi := []int{int(math.Ceil(c.X*1e6 + 1e-3)), int(math.Ceil(c.Y*1e6 + 1e-3))}
				if b, ok := boxes[r]; !ok {
					boxes[r] = &rectI{Lo: lo, Hi: hi}
				} else {
					for a := 0; a < 2; a++ {
						if lo[a] < b.Lo[a] {
							b.Lo[a] = lo[a]
						}
						if hi[a] > b.Hi[a] {
							b.Hi[a] = hi[a]
						}
					}
				}
			}
		}
		for _, b := range boxes {
			// shrink by one unit: boxes may touch in exact arithmetic only through rounding
			rec.Rects = append(rec.Rects, rectI{Lo: []int{b.Lo[0] + 1, b.Lo[1] + 1}, Hi: []int{b.Hi[0] - 1, b.Hi[1] - 1}})
		}
		fn := uv.MapFn()
		for t, tri := range uv {
			for _, w := range [][3]float64{{1.0 / 3, 1.0 / 3, 1.0 / 3}, {0.5, 0.25, 0.25}, {0.125, 0.125, 0.75}} {
				q := tri[0].Scale(w[0]).Add(tri[1].Scale(w[1])).Add(tri[2].Scale(w[2]))
				p, got := fn(q)
				want := t[0].Scale(w[0]).Add(t[1].Scale(w[1])).Add(t[2].Scale(w[2]))
				if got != t || p.Dist(want) > 1e-6 {
					rec.Bary = false
				}
			}
		}
	})
	if outcome != "ok" {
		rec.Panic = outcome + " " + pan
	}
	return rec
}

type mapQuery struct {
	C      []int `json:"c"`
	D8     int   `json:"d8"`
	DX     bool  `json:"dx"`
	Inside bool  `json:"inside"`
	Bary   bool  `json:"bary"`
}
type mapRec struct {
	ID    int        `json:"id"`
	Kind  string     `json:"kind"`
	Site  string     `json:"site"`
	Tris  [][][]int  `json:"tris"`
	Qs    []mapQuery `json:"qs"`
	Panic string     `json:"panic"`
	// Bounds2D (integers), 4 * Area3D^2 (the lift multiplies areas by sqrt 6), and ToBounds(nb[0], nb[1]): the
	// new UV triangles in the order of tris, in 1/8 units; bx: every projection was exact
	B2 [][]int   `json:"b2"`
	A4 int       `json:"a4"`
	NB [][]int   `json:"nb"`
	TB [][][]int `json:"tb"`
	BX bool      `json:"bx"`
}

func mapfnRun(id int, cells [][]int, diag int, g int) mapRec {
	rec := mapRec{ID: id, Kind: "mapfn", Site: "MeshUVMap.MapFn", Tris: [][][]int{}, Qs: []mapQuery{}}
	lift := func(p []int) model3d.Coord3D {
		return model3d.XYZ(float64(p[0]), float64(p[1]), float64(p[0]+2*p[1]))
	}
	uvp := func(p []int) model2d.Coord { return model2d.XY(float64(p[0]), float64(p[1])) }
	uv := model3d.MeshUVMap{}
	tri2 := map[*model3d.Triangle][][]int{}
	var order []*model3d.Triangle // the 3-D triangles in the order of rec.Tris
	for _, c := range cells {
		// cells are placed on a doubled lattice so that islands have gutters of at least one unit
		x, y := 2*c[0], 2*c[1]
		p00, p10, p11, p01 := []int{x, y}, []int{x + 1, y}, []int{x + 1, y + 1}, []int{x, y + 1}
		var ts [][][]int
		if (diag+c[0]+c[1])%2 == 0 {
			ts = [][][]int{{p00, p10, p11}, {p00, p11, p01}}
		} else {
			ts = [][][]int{{p00, p10, p01}, {p10, p11, p01}}
		}
		for _, t := range ts {
			t3 := &model3d.Triangle{lift(t[0]), lift(t[1]), lift(t[2])}
			uv[t3] = [3]model2d.Coord{uvp(t[0]), uvp(t[1]), uvp(t[2])}
			tri2[t3] = t
			order = append(order, t3)
			rec.Tris = append(rec.Tris, t)
		}
	}
	rec.B2, rec.NB, rec.TB = [][]int{}, [][]int{}, [][][]int{}
	rec.Panic = protect(func() {
		rec.BX = true
		proj := func(x, k float64) int {
			v, ok := scaledInt(x, k)
			rec.BX = rec.BX && ok
			return v
		}
		lo, hi := uv.Bounds2D()
		rec.B2 = [][]int{{proj(lo.X, 1), proj(lo.Y, 1)}, {proj(hi.X, 1), proj(hi.Y, 1)}}
		a := uv.Area3D()
		rec.A4 = proj(4*a*a, 1)
		// new bounds: moved, stretched by 2 (3) along x (y), from the extent the library itself reports
		nlo := model2d.XY(-3, 5)
		nhi := nlo.Add(hi.Sub(lo).Mul(model2d.XY(2, 3)))
		rec.NB = [][]int{{proj(nlo.X, 1), proj(nlo.Y, 1)}, {proj(nhi.X, 1), proj(nhi.Y, 1)}}
		moved := uv.ToBounds(nlo, nhi)
		if len(moved) != len(uv) {
			rec.BX = false
		}
		for _, t3 := range order {
			tri, ok := moved[t3]
			if !ok {
				rec.BX = false
			}
			rec.TB = append(rec.TB, [][]int{{proj(tri[0].X, 8), proj(tri[0].Y, 8)}, {proj(tri[1].X, 8), proj(tri[1].Y, 8)},
				{proj(tri[2].X, 8), proj(tri[2].Y, 8)}})
		}
		fn := uv.MapFn()
		// queries on the half lattice covering the layout and a margin
		for cx := -3; cx <= 4*g+1; cx++ {
			for cy := -3; cy <= 4*g+1; cy++ {
				q := mapQuery{C: []int{cx, cy}}
				c := model2d.XY(float64(cx)/2, float64(cy)/2)
				p, t3 := fn(c)
				t2, ok := tri2[t3]
				if !ok {
					rec.Qs = append(rec.Qs, q)
					continue
				}
				// barycentric coordinates of p in the 3-D triangle (exact: the lift is affine)
				a, b, cc := t3[0], t3[1], t3[2]
				v0, v1, v2 := b.Sub(a), cc.Sub(a), p.Sub(a)
				d00, d01, d11, d20, d21 := v0.Dot(v0), v0.Dot(v1), v1.Dot(v1), v2.Dot(v0), v2.Dot(v1)
				den := d00*d11 - d01*d01
				w1 := (d11*d20 - d01*d21) / den
				w2 := (d00*d21 - d01*d20) / den
				w0 := 1 - w1 - w2
				inPlane := a.Scale(w0).Add(b.Scale(w1)).Add(cc.Scale(w2)).Dist(p) < 1e-9
				q.Bary = inPlane && w0 > -1e-9 && w1 > -1e-9 && w2 > -1e-9
				used := uvp(t2[0]).Scale(w0).Add(uvp(t2[1]).Scale(w1)).Add(uvp(t2[2]).Scale(w2))
				d8 := used.Dist(c) * used.Dist(c) * 8
				q.D8 = int(math.Round(d8))
				q.DX = math.Abs(d8-math.Round(d8)) < 1e-6
				q.Inside = used.Dist(c) < 1e-9
				rec.Qs = append(rec.Qs, q)
			}
		}
	})
	return rec
}

func init() {
	register("c18-param", func(a args) {
		rng := rand.New(rand.NewSource(int64(a.int("seed", 1))))
		out := newNDWriter(a.str("out", "records.ndjson"))
		defer out.close()
		stats := map[string]int{}
		id := 0
		switch a.str("kind", "charts") {
		case "charts":
			names := []string{"box", "boxsub", "voxL", "voxStairs", "voxG1", "voxG2", "ico", "torus", "two", "octa", "disc", "annulus"}
			var discs []*model3d.Mesh
			var discNames []string
			for _, name := range names {
				m := paramMesh(name)
				id++
				r := chartsRecord(id, "MeshToPlaneGraphs", name, m, 0, model3d.MeshToPlaneGraphs)
				out.write(r)
				for _, sz := range []int{1, 3, 7} {
					id++
					sz := sz
					out.write(chartsRecord(id, "MeshToPlaneGraphsLimited", name, m, sz, func(x *model3d.Mesh) []*model3d.Mesh {
						return model3d.MeshToPlaneGraphsLimited(x, sz, 0)
					}))
				}
				id++
				out.write(chartsRecord(id, "MeshToPlaneGraphsLimited(area)", name, m, 0, func(x *model3d.Mesh) []*model3d.Mesh {
					return model3d.MeshToPlaneGraphsLimited(x, 0, x.Area()/5)
				}))
				// every chart is again a plane graph: splitting it gives discs that partition it
				if r.Panic == "" {
					for k, ch := range model3d.MeshToPlaneGraphs(m) {
						if k < 3 && ch.NumTriangles() >= 2 {
							id++
							out.write(chartsRecord(id, "SplitPlaneGraph", name, ch, 0, func(x *model3d.Mesh) []*model3d.Mesh {
								return model3d.SplitPlaneGraph(x, nil)
							}))
							id++
							out.write(chartsRecord(id, "MeshToPlaneGraphs(chart)", name, ch, 0, model3d.MeshToPlaneGraphs))
						}
						if k < 2 && ch.NumTriangles() >= 3 {
							discs = append(discs, ch)
							discNames = append(discNames, name)
						}
					}
				}
			}
			for n := 3; n <= 7; n++ {
				discs = append(discs, fanDisc(rng, n))
				discNames = append(discNames, "fan")
			}
			// a solve that does not come back within its deadline leaves a spinning goroutine behind: after three of
			// them the stage stops here, and the records so far (with the three marked "hang") are judged
			hangs := 0
			emitF := func(r floaterRec) {
				out.write(r)
				if strings.HasPrefix(r.Panic, "hang") {
					hangs++
					if hangs >= 3 {
						stats["aborted_after_hangs"] = 1
						stats["records"] = out.n
						out.close()
						writeJSONFile(a.str("stats", "stats.json"), stats)
						os.Exit(0)
					}
				}
			}
			for _, n := range []int{15, 16, 17, 24, 40} {
				discs = append(discs, hubDisc(rng, n))
				discNames = append(discNames, "hub")
			}
			for i, d := range discs {
				for _, w := range []string{"uniform", "chord", "shape"} {
					for _, b := range []string{"circle", "square", "pnorm", []string{"pnorm1", "pnorm1.5", "pnorm3", "pnorm5", "pnorm2"}[(i+len(w))%5]} {
						id++
						emitF(floaterRun(id, discNames[i], d, w, b))
					}
				}
			}
			for _, w := range []string{"uniform", "chord", "shape"} {
				for _, b := range []string{"diamond", "circle"} {
					id++
					emitF(floaterRun(id, "symfan", symFan(), w, b))
				}
			}
			// ---- StretchMinimizingParameterization on the same discs (boundary fixed, no flips), ExtendBoundaryUVs
			for i, d := range discs {
				for k, w := range []string{"uniform", "chord", "shape"} {
					b := []string{"circle", "square", "pnorm"}[(i+k)%3]
					opt := []stretchOpt{{3, 1}, {-1, 1}, {2, 0.5}, {1, 1}}[(i+2*k)%4]
					id++
					emitF(floaterRunX(id, discNames[i], d, w, b, &opt))
				}
			}
			extDiscs, extNames := append([]*model3d.Mesh{paramMesh("disc")}, discs...), append([]string{"disc"}, discNames...)
			for i, d := range extDiscs {
				for _, b := range []string{"circle", "square"} {
					id++
					out.write(extendRun(id, extNames[i], d, b, []float64{0.05, 10, 0}[(i+len(b))%3], stats))
				}
			}
			stats["extend-records"] = 2 * len(extDiscs)
			// ----
			for _, k := range []int{1, 2, 3, 5, 6, 9, 18} {
				for _, sz := range [][2]float64{{1, 1}, {1, 2}, {1, 3}, {2, 1}, {3, 2}} {
					id++
					out.write(packRun(id, rng, k, sz[0], sz[1]))
				}
			}
			for _, name := range []string{"box", "voxL", "ico", "torus", "two"} {
				id++
				out.write(atlasRun(id, name, paramMesh(name)))
			}
		case "mapfn":
			g := a.int("g", 3)
			readNDJSON(a.str("in", "cases.ndjson"), func(line []byte) {
				var c struct {
					Cells [][]int `json:"cells"`
					Diag  int     `json:"diag"`
				}
				if err := json.Unmarshal(line, &c); err != nil {
					fatal("bad case: %v", err)
				}
				id++
				out.write(mapfnRun(id, c.Cells, c.Diag, g))
			})
		}
		stats["records"] = out.n
		writeJSONFile(a.str("stats", "stats.json"), stats)
	})
}
