package main

// C12 / C13: hook traces of the slab pipeline of marching cubes (squareSpacer.Scan), validated
// against spec/pipeline/McScan.tla by McScanTrace.

import (
	"math/rand"
	"reflect"
	"runtime"
	"sync"

	"github.com/unixpickle/model3d/model3d"
)

type scanEvent struct {
	Ev   string `json:"ev"`
	Z    int    `json:"z"`
	C    int    `json:"c"`
	C2   int    `json:"c2"`
	Flag bool   `json:"flag"`
}

type scanRecord struct {
	Id    int         `json:"id"`
	Site  string      `json:"site"`
	Procs int         `json:"procs"`
	N     []int       `json:"n"`
	Tris  int         `json:"tris"`
	Panic string      `json:"panic"`
	Ev    []scanEvent `json:"ev"`
}

func runScan(id int, l *latticeSolid3, procs int) scanRecord {
	rec := scanRecord{Id: id, Site: "MarchingCubes", Procs: procs, N: l.n[:], Ev: []scanEvent{}}
	var mu sync.Mutex
	labels := map[uintptr]int{}
	label := func(p uintptr) int {
		if v, ok := labels[p]; ok {
			return v
		}
		labels[p] = len(labels)
		return len(labels) - 1
	}
	hook := func(ev string, obj any, flag bool) {
		if len(ev) < 5 || ev[:5] != "scan." {
			return
		}
		a := obj.([3]any)
		mu.Lock()
		defer mu.Unlock()
		e := scanEvent{Ev: ev, Flag: flag, C: -1, C2: -1}
		switch ev {
		case "scan.begin":
			e.C, e.Z = a[1].(int), a[2].(int)
		case "scan.end":
			e.Z = a[1].(int)
		case "scan.f":
			e.Z = a[1].(int)
			v := reflect.ValueOf(a[2])
			e.C, e.C2 = label(v.Index(0).Pointer()), label(v.Index(1).Pointer())
		default:
			e.Z = a[1].(int)
			e.C = label(reflect.ValueOf(a[2]).Pointer())
		}
		rec.Ev = append(rec.Ev, e)
	}
	old := runtime.GOMAXPROCS(procs)
	defer runtime.GOMAXPROCS(old)
	model3d.VerifHook = hook
	rec.Panic = protect(func() {
		rec.Tris = len(model3d.MarchingCubes(l, 1).TriangleSlice())
	})
	model3d.VerifHook = nil
	return rec
}

func init() {
	// c12-scan out= stats= rounds=N seed=S
	register("c12-scan", func(a args) {
		out := newNDWriter(a.str("out", "records.ndjson"))
		defer out.close()
		rng := rand.New(rand.NewSource(int64(a.int("seed", 1))*31 + 12))
		stats := map[string]int{}
		id := 0
		for round := 0; round < a.int("rounds", 2); round++ {
			for _, nz := range []int{1, 2, 3, 4, 6, 9, 13, 17} {
				for _, procs := range []int{1, 2, 3, 4, 7, 16} {
					l := newLatticeSolid3(2+rng.Intn(3), 2+rng.Intn(3), nz, 0)
					for j := range l.inside {
						l.inside[j] = rng.Intn(2) == 0
					}
					id++
					rec := runScan(id, l, procs)
					stats["records"]++
					stats["events"] += len(rec.Ev)
					if rec.Tris > 0 {
						stats["nonempty"]++
					}
					if nz+2-1 < procs {
						stats["flat"]++ // fewer slabs than workers
					}
					out.write(rec)
				}
			}
		}
		writeJSONFile(a.str("stats", "stats.json"), stats)
	})
}
