package main

// C02 (search refinement, law form): SolidSurfaceEstimator.Bisect / BisectInterior on solids with
// non-dyadic transitions, near and far from the origin, with small and very large bisection counts.

import (
	"math"
	"math/rand"

	"github.com/unixpickle/model3d/model2d"
	"github.com/unixpickle/model3d/model3d"
)

type bisectRec struct {
	ID      int    `json:"id"`
	Site    string `json:"site"`
	Count   int    `json:"count"`
	Far     bool   `json:"far"`
	N       int    `json:"n"`
	Outside int    `json:"outside"` // BisectInterior results that are not contained
	Unbrack int    `json:"unbrack"` // Bisect results farther than the final bracket from the transition
	Panic   string `json:"panic"`
}

func init() {
	register("c02-bisect", func(a args) {
		rng := rand.New(rand.NewSource(int64(a.int("seed", 1))))
		out := newNDWriter(a.str("out", "records.ndjson"))
		defer out.close()
		stats := map[string]int{}
		id := 0
		for _, count := range []int{4, 16, 32, 48, 64} {
			for _, far := range []bool{false, true} {
				for _, dim := range []int{3, 2} {
					id++
					rec := bisectRec{ID: id, Count: count, Far: far}
					off := 0.0
					if far {
						off = 1e6
					}
					rec.Panic = protect(func() {
						if dim == 3 {
							rec.Site = "model3d.SolidSurfaceEstimator"
							c := model3d.XYZ(off+1.0/3, off-2.0/7, off+0.1)
							solid := &model3d.Sphere{Center: c, Radius: 1.0 / 3}
							est := &model3d.SolidSurfaceEstimator{Solid: solid, BisectCount: count}
							for k := 0; k < 200; k++ {
								dir := model3d.XYZ(rng.NormFloat64(), rng.NormFloat64(), rng.NormFloat64()).Normalize()
								p1 := c.Add(dir.Scale(0.1))  // inside
								p2 := c.Add(dir.Scale(0.77)) // outside
								rec.N++
								if !solid.Contains(est.BisectInterior(p1, p2)) {
									rec.Outside++
								}
								b := est.Bisect(p1, p2)
								width := p1.Dist(p2)/math.Pow(2, float64(count)) + 4e-16*(math.Abs(off)+1)
								if math.Abs(b.Dist(c)-solid.Radius) > width {
									rec.Unbrack++
								}
							}
						} else {
							rec.Site = "model2d.SolidSurfaceEstimator"
							c := model2d.XY(off+1.0/3, off-2.0/7)
							solid := &model2d.Circle{Center: c, Radius: 1.0 / 3}
							est := &model2d.SolidSurfaceEstimator{Solid: solid, BisectCount: count}
							for k := 0; k < 200; k++ {
								dir := model2d.NewCoordPolar(rng.Float64()*2*math.Pi, 1)
								p1 := c.Add(dir.Scale(0.1))
								p2 := c.Add(dir.Scale(0.77))
								rec.N++
								if !solid.Contains(est.BisectInterior(p1, p2)) {
									rec.Outside++
								}
								b := est.Bisect(p1, p2)
								width := p1.Dist(p2)/math.Pow(2, float64(count)) + 4e-16*(math.Abs(off)+1)
								if math.Abs(b.Dist(c)-solid.Radius) > width {
									rec.Unbrack++
								}
							}
						}
					})
					out.write(rec)
					stats["records"]++
					stats["nonempty"]++
				}
			}
		}
		writeJSONFile(a.str("stats", "stats.json"), stats)
	})
}
