"""C12: rasteriser tiles - RasterTiles.tla (mode E) and filtered vs unfiltered images of the real rasteriser."""
import solids
from vlib import Infra

CFG = "SPECIFICATION Spec\nCONSTANTS\n  MaxH = %d\n  MaxF = 3\n  MaxPH = 3\nINVARIANTS Inv\nCHECK_DEADLOCK FALSE\n"


def run(ctx):
    quick = ctx.tier == "quick"
    e = ctx.tlc("raster-E", "pipeline/RasterTiles", CFG % (4 if quick else 5), workers=16, timeout=1200, heap="8g")
    if e.invariant:
        raise Infra("RasterTiles violates %s: the tile model is wrong" % e.invariant)
    ctx.require_clean(e, "raster-E")
    ctx.add_tlc_counts(e)
    ctx.stage("raster-model", kind="E", states=e.distinct)
    solids.judge_stage(ctx, "raster", ["c12-raster", "n=%d" % (40 if quick else 400)], {"panic", "filter"},
                       judge="pipeline/RasterJudge", keyfn=lambda rec, clause: "Rasterizer.RasterizeSolidFilter:%s%s" % (
                           clause, ":anisotropic-pixels" if rec.get("aniso") else ""))


def c2f_ratio(ctx):
    """Coarse-to-fine meshing at coarse/fine ratios up to 64 against the direct fine mesh (C2FJudge)."""
    quick = ctx.tier == "quick"
    args = ["c12-c2f", "n2=%d" % (14 if quick else 140), "n3=%d" % (4 if quick else 18), "maxratio3=%d" % (24 if quick else 32)]
    solids.judge_stage(ctx, "c2f-ratio", args, {"panic", "subset", "margin", "count"}, judge="pipeline/C2FJudge",
                       keyfn=lambda rec, clause: "%s:ratio:%s" % (rec["site"], clause))
