"""C03 - solids never contain points outside their reported bounding box."""
import solids


def run(ctx):
    quick = ctx.tier == "quick"
    ctx.rule = ("seeded random expression trees over integer boxes through every combinator and wrapper (incl. negative "
                "VecScale, axis permutations with reflections, forced / cached bounds), probed on the half-integer grid "
                "well beyond their bounds; non-trivial = the solid contains at least one probe")
    ctx.assumptions = ["the true shape of a tree is its denotation In(e,p) in spec/solids/SolidAlgebra.tla",
                       "curved primitives and toolbox solids: see level_note"]
    ctx.build_harness()
    solids.judge_stage(ctx, "trees", ["c04-solids", "trees=%d" % (400 if quick else 4000), "perms=%d" % (2 if quick else 20),
                                      "depth=3", "range=%d" % (7 if quick else 9)],
                       {"panic", "bounds", "leak", "exact"})
    import c03_prims
    c03_prims.run(ctx)
