"""C12 - meshing results do not depend on parallelism, buffering or filtering."""
import lattice


def run(ctx):
    quick = ctx.tier == "quick"
    ctx.rule = ("the same lattice solid meshed under GOMAXPROCS 1/2/3/16, with no / exact / over-approximating region "
                "filters, with a coarse-to-fine pre-pass, and (dual contouring) under several worker counts and every "
                "buffer depth; every configuration must produce exactly the face set the lookup table prescribes; "
                "non-trivial = non-empty output")
    ctx.assumptions = ["face-set equality is judged on lattice-edge ids (exact), so every configuration is compared "
                       "with the same table-derived set, not only with each other"]
    ctx.build_harness()
    import c12_protocols
    c12_protocols.run(ctx)
    procs = "1,2,3,16"
    if quick:
        plan = ("all:2,2,2:MC,MCFilterExact:%s;rand:6,6,6:6:MC,MCFilterTrue,MCFilterExact,MCFilterExactPlus:%s;"
                "rand:4,4,9:6:MC,MCSearch3:%s;blocky:8:3:MCC2F,MC:1,16;sat:14:8:MCC2Fx0,MCC2Fx3,MCC2Fx6:0;"
                "rand:6,6,6:6:MCFilterGeom,MCFilterGeomHi:1,16;all:2,2,2:MCFilterGeom:0;aligned:12:MCFilterGeom,MCFilterGeomHi:0" % ("1,3", procs, procs))
        plan2 = ("ms:all:3,3:MS,MSFilterExact:1,3;ms:rand:12,12:10:MS,MSFilterTrue,MSFilterExact,MSFilterExactPlus:%s;"
                 "ms:blocky:12:5:MSC2F,MS:1,16;ms:sat:14:10:MSC2Fx0,MSC2Fx3,MSC2Fx6:0;ms:rand:9,8:20:MSFilterGeom,MSFilterGeomHi:1,16;ms:aligned:14:MSFilterGeom,MSFilterGeomHi:0;"
                 "ms:all:3,3:MSFilterGeom:0" % procs)
        pland = "rand:4,2,8:12:1/4/0/0,2/5/0/0,8/6/1/0,3/10/0/0,1/0/1/0,16/7/0/1,2/5/0/0/-12"
    else:
        plan = ("all:2,2,2:MC,MCFilterExact,MCFilterExactPlus:%s;all:3,2,2:MC,MCFilterExact:1,16;"
                "rand:6,6,6:60:MC,MCFilterTrue,MCFilterExact,MCFilterExactPlus:%s;"
                "rand:4,4,12:40:MC,MCSearch3,MCFilterExactPlus:%s;blocky:8:25:MCC2F,MC:1,16;rand:9,9,9:6:MC,MCFilterExactPlus:%s;"
                "sat:14:60:MCC2Fx0,MCC2Fx3,MCC2Fx6:0;rand:6,6,6:60:MCFilterGeom,MCFilterGeomHi:1,16;aligned:12:MCFilterGeom,MCFilterGeomHi:1,16;aligned:14:MCFilterGeom,MCFilterGeomHi:0;aligned:9:MCFilterGeom,MCFilterGeomHi:0;all:2,2,2:MCFilterGeom:0;all:3,2,2:MCFilterGeom:0"
                % (procs, procs, procs, "1,16"))
        plan2 = ("ms:all:3,3:MS,MSFilterExact,MSFilterExactPlus:%s;ms:rand:14,13:80:MS,MSFilterTrue,MSFilterExact,MSFilterExactPlus:%s;"
                 "ms:blocky:14:40:MSC2F,MS:1,16;ms:sat:14:100:MSC2Fx0,MSC2Fx3,MSC2Fx6:0;ms:rand:12,11:100:MSFilterGeom,MSFilterGeomHi:1,16;ms:aligned:14:MSFilterGeom,MSFilterGeomHi:1,16;ms:aligned:13:MSFilterGeom,MSFilterGeomHi:0;ms:aligned:12:MSFilterGeom,MSFilterGeomHi:0;ms:aligned:11:MSFilterGeom,MSFilterGeomHi:0;"
                 "ms:all:4,3:MSFilterGeom:0" % (procs, procs))
        pland = ("rand:5,2,8:80:1/4/0/0,2/5/0/0,8/6/1/0,3/10/0/0,1/0/1/0,16/7/0/1;"
                 "rand:4,3,12:40:1/4/0/0,2/5/1/0,3/6/0/0,4/7/0/0,5/8/0/0,6/9/1/0,7/10/0/0,8/11/0/0,1/12/0/0,2/13/0/0,3/14/0/0")
    lattice.lattice_stage(ctx, "mc3", plan, {"panic", "snap", "nodup", "table"})
    lattice.lattice_stage(ctx, "ms2", plan2, {"panic", "snap", "table"}, cmd="c01-mesh2",
                          judge="lattice/Mesh2Judge", sitename="MarchingSquares")
    lattice.dc_stage(ctx, "dc", pland, {"panic", "incube", "quads", "orient"})
    import c12_raster
    c12_raster.run(ctx)
    c12_raster.c2f_ratio(ctx)
