"""C01 - meshing always outputs a closed, consistently oriented manifold."""
import lattice
import vlib


def run(ctx):
    quick = ctx.tier == "quick"
    ctx.rule = ("windows: every configuration of 1-, 2- (and 4-cell, thorough) windows of the exported lookup table; "
                "lattices: every subset of small interior lattices / pixel grids and seeded larger ones meshed by the "
                "real code; generators: seeded parameter tuples; non-trivial = non-empty output mesh")
    ctx.assumptions = ["solids are sampled only on the lattice (locality argument in spec/lattice/McLocal.tla)",
                       "float lattice coordinates are exact for integer bounds and delta=1",
                       "generator meshes: vertex identity is exact coordinate equality (the library's own notion)"]
    ctx.build_harness()
    wins = [(1, 1, 1), (2, 1, 1), (1, 2, 1), (1, 1, 2)]
    if not quick:
        wins += [(2, 2, 1), (2, 1, 2), (1, 2, 2)]
    lattice.window_stage(ctx, wins)
    clauses = {"panic", "snap", "nodup", "closed", "fan", "orient"}
    if quick:
        plan = ("all:2,2,2:MC,MCFilterExact,MCSearch3:0;all:3,2,2:MC:0;"
                "rand:4,4,3:20:MC,MCFilterExactPlus,MCSearch5,MCConj3:0;blocky:8:3:MCC2F:0;"
                "sat:14:6:MCC2Fx0,MCC2Fx3,MCC2Fx6:0;rand:5,4,4:10:MCFilterGeom,MCFilterGeomHi:0;aligned:12:MCFilterGeom,MCFilterGeomHi:0")
        plan2 = ("ms:all:3,3:MS,MSFilterExact,MSSearch3,MSConj3:0;ms:rand:6,5:30:MS,MSFilterExactPlus,MSSearch5:0;"
                 "ms:blocky:10:5:MSC2F:0;ms:sat:14:10:MSC2Fx0,MSC2Fx3,MSC2Fx6:0;ms:rand:7,6:30:MSFilterGeom,MSFilterGeomHi:0;ms:aligned:14:MSFilterGeom,MSFilterGeomHi:0;bitmap:all:3,3;bitmap:rand:4,4:300;bitmap:rand:7,6:40")
    else:
        plan = ("all:2,2,2:MC,MCFilterTrue,MCFilterExact,MCSearch3,MCSearch5,MCInterior4,MCConj3:0;"
                "all:3,2,2:MC,MCFilterExact,MCSearch3:0;"
                "rand:4,4,3:300:MC,MCFilterExactPlus,MCSearch5,MCConj3:0;rand:6,6,6:40:MC,MCFilterExactPlus:0;"
                "blocky:8:20:MCC2F,MC:0;sat:14:40:MCC2Fx0,MCC2Fx3,MCC2Fx6:0;rand:7,6,5:60:MCFilterGeom,MCFilterGeomHi:0;aligned:12:MCFilterGeom,MCFilterGeomHi:0;aligned:14:MCFilterGeom,MCFilterGeomHi:0")
        plan2 = ("ms:all:3,3:MS,MSFilterTrue,MSFilterExact,MSSearch3,MSSearch5,MSSearchFilter3,MSConj3:0;"
                 "ms:all:4,3:MS,MSSearch3:0;ms:rand:8,7:300:MS,MSFilterExactPlus,MSSearch5:0;"
                 "ms:blocky:12:30:MSC2F,MS:0;ms:sat:14:80:MSC2Fx0,MSC2Fx3,MSC2Fx6:0;ms:rand:9,8:200:MSFilterGeom,MSFilterGeomHi:0;ms:aligned:14:MSFilterGeom,MSFilterGeomHi:0;ms:aligned:13:MSFilterGeom,MSFilterGeomHi:0;ms:aligned:11:MSFilterGeom,MSFilterGeomHi:0;"
                 "ms:all:4,3:MSFilterGeom:0;bitmap:all:4,4;bitmap:rand:8,8:300")
    lattice.lattice_stage(ctx, "mc3", plan, clauses)
    lattice.lattice_stage(ctx, "ms2", plan2, {"panic", "snap", "manifold", "winding"}, cmd="c01-mesh2",
                          judge="lattice/Mesh2Judge", sitename="MarchingSquares/Bitmap")
    lattice.complex_stage(ctx, "gen", ["c01-gen", "scale=%d" % (2 if quick else 12)],
                          {"panic", "closed", "singular", "outward", "euler"})
    refusal_stage(ctx)
    import solids
    solids.judge_stage(ctx, "sweep", ["c01-sweep", "max=%d" % (200 if quick else 420)], {"panic", "closed", "euler", "outward"},
                       judge="mesh/SweepJudge", keyfn=lambda rec, clause: "%s:sweep:%s" % (rec["site"], clause))
    ctx.extra["exhaustive"] = True


def refusal_stage(ctx):
    """The meshers' guard: a solid that is true on the outer layer of the sampling lattice (bounds under-reported
    on one face) is refused ("solid is true outside of bounds") instead of being meshed with a hole."""
    n = bad = 0
    for variant, faces in (("MC", 6), ("MCSearch", 6), ("MCFilter", 6), ("MS", 4), ("MSFilter", 4)):
        for face in range(faces):
            p = ctx.drv(["c01-refuse", "variant=" + variant, "face=%d" % face], check=False, timeout=120)
            n += 1
            refused = p.returncode != 0 and "solid is true outside of bounds" in (p.stderr or "")
            if refused:
                continue
            out = (p.stdout or "").strip()
            if p.returncode == 0 and out.startswith("RETURNED"):
                bad += 1
                ctx.violation("%s:refusal" % {"MC": "MarchingCubes", "MCSearch": "MarchingCubesSearch",
                                                "MCFilter": "MarchingCubesFilter", "MS": "MarchingSquares",
                                                "MSFilter": "MarchingSquaresFilter"}[variant],
                              "%s meshed a solid that is true on the outer lattice layer of face %d instead of refusing it: %s"
                              % (variant, face, out), {"variant": variant, "face": face, "stdout": out})
            else:
                raise vlib.Infra("c01-refuse %s face %d: rc=%s %s" % (variant, face, p.returncode, (p.stderr or "")[-500:]))
    ctx.counts["evaluations"] += n
    ctx.stage("refusal", kind="V", cases=n, not_refused=bad)
