"""C15 - mesh files round-trip through the library's writers and readers.

Stages
  ply-E   TLC checks the row protocol PlyProtocol (writer skip loop / isDone / reader skip loop
          transcribed from the code) against its requirements for every header with <= 3
          elements and counts 0..2, and prints every header.
  ply-RV  every header is replayed through the real PLYWriter -> bytes -> PLYReader in ASCII,
          little- and big-endian with values at the type limits (and through STLWriter /
          STLReader as the one-element instance); PlyTrace validates every recorded call
          against the PlyProtocol actions and evaluates the requirements in every state.
  mesh    TLC enumerates every abstract mesh (MeshCodec); the harness realises the vertex names
          under three coordinate realisations and pushes each through EncodeSTL/ReadSTL,
          EncodePLY/ReadColorPLY, BuildMaterialOBJ, BuildVertexColorOBJ, Write3MF and
          EncodeCSV/DecodeCSV; CodecJudge compares faces (order, orientation) and colours.
  text    valid OFF / ASCII STL / PLY / CSV files rendered from the grammar of CodecFaults in
          every specified variant (with and without final newline) must decode to the mesh.
"""
import json
import os

import codec
import vlib
from vlib import Infra

PLY_E = """SPECIFICATION Spec
CONSTANTS
  MaxEl = %d
  MaxCount = %d
INVARIANTS %s
CHECK_DEADLOCK FALSE
"""
MESH_G = """SPECIFICATION Spec
CONSTANTS
  NV = 4
  MaxF = %d
  ARITY = %d
CHECK_DEADLOCK FALSE
"""


def ply_key(rec, clause, line):
    ev = rec["ev"][line - 1] if 0 < line <= len(rec["ev"]) else {}
    who = "Writer" if ev.get("op") in ("open", "write") else "Reader"
    shape = ""
    if clause == "flush":
        shape = ":trailing-zero-count" if rec["counts"] and rec["counts"][-1] == 0 else ":other"
    return "%s%s:%s%s" % (rec["site"], who, clause, shape)


def ply_stage(ctx):
    quick = ctx.tier == "quick"
    maxel, maxcount = (3, 2) if quick else (4, 3)
    # mode E: the transcribed design against its requirements.  A violation here is a lead, not a
    # verdict: the traces of the real code below decide (exit 2 if the lead does not reproduce).
    chk = ctx.tlc("ply-E", "codec/MCPly", PLY_E % (maxel, maxcount, "TypeOK Requirements"), workers=8, timeout=900)
    lead = chk.invariant
    if not lead:
        ctx.require_clean(chk, "ply-E")
    ctx.add_tlc_counts(chk)
    e = ctx.tlc("ply-G", "codec/MCPly", PLY_E % (maxel, maxcount, "TypeOK Emit"), workers=8, timeout=900, tags=("CASE",))
    ctx.require_clean(e, "ply-G")
    cases = sorted({c[1] for c in e.tagged("CASE")})
    if len(cases) != sum((maxcount + 1) ** k for k in range(1, maxel + 1)):
        raise Infra("expected every header, got %d" % len(cases))
    cpath = os.path.join(ctx.dir, "ply-cases.ndjson")
    with open(cpath, "w") as fh:
        for c in cases:
            fh.write(c + "\n")
    rpath = os.path.join(ctx.dir, "ply-records.ndjson")
    spath = os.path.join(ctx.dir, "ply-stats.json")
    ctx.drv(["c15-ply", "in=" + cpath, "out=" + rpath, "stats=" + spath, "reps=%d" % (2 if quick else 6)])
    stats = json.load(open(spath))
    j = ctx.tlc("ply-V", "codec/PlyTrace", "codec/PlyTrace.cfg", data={"records.ndjson": rpath}, workers=16,
                timeout=1800, heap="8g")
    if j.invariant:
        raise Infra("trace ended early (%s): harness and trace spec disagree about the trace shape" % j.invariant)
    ctx.require_clean(j, "ply-V")
    ctx.add_tlc_counts(j)
    rejects = j.tagged("REJECT")
    recs = {r["id"]: r for r in vlib.read_ndjson(rpath)}
    for (_, rid, line, clause) in rejects:
        rec = recs[rid]
        ctx.violation(ply_key(rec, clause, line),
                      "%s %s counts=%s: event %d %s rejected (%s)" % (rec["site"], rec["fmt"], rec["counts"], line,
                                                                    json.dumps(rec["ev"][line - 1]), clause),
                      {"spec": "codec/PlyTrace.tla", "record": rec, "line": line, "clause": clause})
    if lead and not rejects:
        raise Infra("PlyProtocol (the transcription of the code) violates %s in mode E but no trace of the real code "
                    "does: the model is out of date" % lead)
    ctx.counts["traces_validated_against_impl"] += stats["records"]
    ctx.counts["evaluations"] += stats["events"]
    ctx.counts["distinct_nontrivial"] += stats.get("nonempty", 0)
    ctx.stage("ply", kind="E+R+V", model_lead=lead or "", headers=len(cases), traces=stats["records"], events=stats["events"],
              rejected=len(rejects))
    ctx.samples.append({"ply_trace": {k: recs[7][k] for k in ("site", "fmt", "counts", "layout")}, "events": len(recs[7]["ev"])})


def mesh_stage(ctx, arity):
    quick = ctx.tier == "quick"
    maxf = (1 if quick else 2) if arity == 3 else (2 if quick else 3)
    g = ctx.tlc("mesh-G%d" % arity, "codec/MeshCodec", MESH_G % (maxf, arity), workers=8, timeout=600, tags=("CASE",))
    ctx.require_clean(g, "mesh-G")
    ctx.add_tlc_counts(g)
    cases = [c[1] for c in g.tagged("CASE")]
    if quick and arity == 3:
        # plus a seeded sample of the two-face meshes
        g2 = ctx.tlc("mesh-G3b", "codec/MeshCodec", MESH_G % (2, 3), workers=8, timeout=600, tags=("CASE",))
        ctx.require_clean(g2, "mesh-G3b")
        import random
        rnd = random.Random(ctx.seed)
        two = sorted(c[1] for c in g2.tagged("CASE"))
        cases += rnd.sample(two, 600)
    cpath = os.path.join(ctx.dir, "mesh-cases%d.ndjson" % arity)
    with open(cpath, "w") as fh:
        for c in cases:
            fh.write(c + "\n")
    rpath = os.path.join(ctx.dir, "mesh-records%d.ndjson" % arity)
    spath = os.path.join(ctx.dir, "mesh-stats%d.json" % arity)
    ctx.drv(["c15-mesh", "in=" + cpath, "out=" + rpath, "stats=" + spath, "arity=%d" % arity])
    stats = json.load(open(spath))
    rej = codec.judge(ctx, "mesh%d" % arity, rpath, stats["records"], {"err", "faces", "colors", "count"},
                      lambda rec, clause: "%s:%s:%s" % (rec["site"], rec.get("real", "large"), clause))
    ctx.counts["distinct_nontrivial"] += stats.get("nonempty", 0)
    ctx.stage("mesh%d" % arity, kind="R+V", meshes=len(cases), records=stats["records"], rejected=rej,
              sites={k[5:]: v for k, v in stats.items() if k.startswith("site:")})


def text_stage(ctx):
    total = 0
    for fmt in codec.FORMATS:
        cpath, n = codec.gen_cases(ctx, fmt, True)
        rpath, stats = codec.run_faults(ctx, fmt, cpath, n, "valid-" + fmt)
        rej = codec.judge(ctx, "valid-" + fmt, rpath, stats["records"], {"valid"}, codec.fault_key)
        total += stats["records"]
        ctx.stage("text-" + fmt, kind="G+R+V", files=n, records=stats["records"], rejected=rej)
        if stats.get("valid", 0) != stats["records"]:
            raise Infra("text stage %s: %d of %d records are valid files" % (fmt, stats.get("valid", 0), stats["records"]))
        # every valid file once more through a reader that hands out a few bytes per Read call
        rpath, stats = codec.run_faults(ctx, fmt, cpath, n, "valid-%s-dribble" % fmt, env_extra={"VERIF_READER": "dribble"})
        rej = codec.judge(ctx, "valid-%s-dribble" % fmt, rpath, stats["records"], {"valid"},
                          lambda rec, clause: codec.fault_key(rec, clause) + ":short-reads")
        total += stats["records"]
        ctx.stage("text-%s-short-reads" % fmt, kind="G+R+V", files=n, records=stats["records"], rejected=rej)
        if fmt == "stla":
            # the single-precision text format once more with coordinates written as long decimals just above / below
            # the midpoint of two neighbouring float32 values: read as the float32 on the right side of the midpoint
            rpath, stats = codec.run_faults(ctx, fmt, cpath, n, "valid-stla-mid", env_extra={"VERIF_COORDS": "mid"})
            rej = codec.judge(ctx, "valid-stla-mid", rpath, stats["records"], {"valid"},
                              lambda rec, clause: codec.fault_key(rec, clause) + ":float32-midpoints")
            total += stats["records"]
            ctx.stage("text-stla-midpoints", kind="G+R+V", files=n, records=stats["records"], rejected=rej)
    ctx.counts["distinct_nontrivial"] += total


def run(ctx):
    ctx.rule = ("every PLY header with <= 3 (thorough 4) elements and counts 0..2 (0..3) x three encodings x seeded rows at "
                "the type limits; every abstract mesh with <= 1 (thorough 2) faces over 4 vertex names (+ a seeded sample of "
                "two-face meshes in quick) x three coordinate realisations x six writer/reader pairs; every valid text "
                "variant of the grammar; non-trivial = non-empty stream / mesh")
    ctx.assumptions = ["coordinates are compared by bit pattern with the original rounded by Go's own float32 conversion",
                       "two vertices that round to the same stored coordinate carry the same colour (otherwise 'colours "
                       "unchanged' is not well defined for a coordinate-keyed colour map)",
                       "3MF: plain coordinates only (the writer prints 32 decimals)"]
    ctx.build_harness()
    ply_stage(ctx)
    mesh_stage(ctx, 3)
    mesh_stage(ctx, 2)
    text_stage(ctx)
    ctx.extra["exhaustive"] = True
