"""C08 - spatial indexes return exactly the brute-force answer."""
import solids


def run(ctx):
    quick = ctx.tier == "quick"
    ctx.rule = ("point trees: every multiset of <= N points of a small even-integer grid (duplicates, ties on every split "
                "axis) plus seeded larger ones, queried from every half-grid point with k = 0..5 and radii m/2 (exact "
                "tangency included); non-trivial = at least two points")
    ctx.assumptions = ["coordinates are small integers / half-integers, so squared distances are exact in float64"]
    ctx.build_harness()
    # mode E: the transcribed pruned searches against brute force on EVERY valid k-d tree
    e = ctx.tlc("E-kdsearch", "spatial/KdSearch", "SPECIFICATION Spec\nCONSTANTS\n  MaxN = %d\n  G = 3\n"
                "INVARIANTS NearestIsNearest SphereIsBrute ContainsIsBrute\nCHECK_DEADLOCK FALSE\n" % (3 if quick else 4),
                workers=16, timeout=2400, heap="8g")
    if e.invariant:
        from vlib import Infra
        raise Infra("KdSearch violates %s: the transcription of the tree search (or its pruning rule) is wrong" % e.invariant)
    ctx.require_clean(e, "E-kdsearch")
    ctx.add_tlc_counts(e)
    ctx.stage("kd-search-model", kind="E", trees=e.distinct)
    solids.judge_stage(ctx, "points", ["c08-points", "maxn=%d" % (3 if quick else 4), "grid=3,2,2",
                                       "random=%d" % (40 if quick else 400), "rn=%d" % (12 if quick else 30)],
                       {"panic", "tree", "nn", "knn", "sphere", "contains"}, judge="spatial/PointIndex",
                       keyfn=lambda rec, clause: "CoordTree%dD:%s" % (rec["dim"], clause))
    import c08_tris
    c08_tris.run(ctx)
    __import__("c08_accel2").run(ctx)  # the 2-D accelerators and the grouping routines against the linear scan
    # hierarchies of render objects (binary and wider, nested joins): nearest hit = brute force over the parts
    from props import C20
    C20.scene_stage(ctx)
