"""C02 - generated meshes bound exactly the sampled solid."""
import lattice


def run(ctx):
    quick = ctx.tier == "quick"
    ctx.rule = ("every subset of small interior lattices (3-D and 2-D) and seeded larger ones, meshed by the real "
                "marching cubes / squares (plain, search-refined, interior, conjugated, filtered) and by dual contouring "
                "with clipping under several buffer / worker settings; non-trivial = non-empty output")
    ctx.assumptions = ["the harness solid owns [i-s, i+1-s) per lattice point clipped to its bounds, so every true "
                       "transition is a known dyadic number", "dual contouring: QEF vertex placement is only judged "
                       "through 'inside its cube with the margin' (Clip=true); Repair is not covered"]
    ctx.build_harness()
    lattice.window_stage(ctx, [(1, 1, 1)] + ([] if quick else [(2, 1, 1), (1, 2, 1), (1, 1, 2)]))
    clauses = {"panic", "snap", "table", "verts", "search", "interior"}
    if quick:
        plan = ("all:2,2,2:MC,MCSearch3,MCInterior4,MCConj3:0;all:3,2,2:MCSearch5:0;"
                "rand:4,4,3:20:MC,MCSearch5,MCSearch5tiny,MCInterior4,MCSearchFilter3:0;blocky:8:3:MCC2F:0;sat:14:5:MCC2Fx0,MCC2Fx3,MCC2Fx6:0")
        plan2 = ("ms:all:3,3:MS,MSSearch3,MSConj3:0;ms:rand:6,5:30:MS,MSSearch5,MSSearch5tiny,MSSearchFilter3:0;ms:blocky:10:4:MSC2F:0")
        pland = ("all:2,2,2:1/0/0/0,3/4/1/1;rand:4,2,6:20:1/0/0/0,2/4/0/1,8/5/1/0,3/8/0/0,1/0/0/0/-12,2/4/0/1/10,0/0/0/0/0/1,0/0/0/1/0/1;wedge:7,6,5:6:1/0/0/0,0/0/0/0/0/1,0/0/0/1/0/1,2/4/0/1")
    else:
        plan = ("all:2,2,2:MC,MCSearch3,MCSearch5,MCInterior4,MCConj3,MCSearchFilter3:0;all:3,2,2:MC,MCSearch5,MCInterior4:0;"
                "rand:4,4,3:300:MC,MCSearch5,MCSearch5tiny,MCInterior4,MCSearchFilter3,MCConj3:0;rand:6,6,6:40:MCSearch3,MCInterior4:0;"
                "blocky:8:20:MCC2F:0;sat:14:30:MCC2Fx0,MCC2Fx3,MCC2Fx6:0")
        plan2 = ("ms:all:3,3:MS,MSSearch3,MSSearch5,MSConj3,MSSearchFilter3:0;ms:all:4,3:MSSearch3:0;"
                 "ms:rand:8,7:300:MS,MSSearch5,MSSearch5tiny,MSSearchFilter3:0;ms:blocky:12:30:MSC2F:0")
        pland = ("all:2,2,2:1/0/0/0,3/4/1/1,2/0/0/1;all:3,2,2:1/0/0/0;"
                 "rand:4,2,6:150:1/0/0/0,2/4/0/1,8/5/1/0,3/8/0/0;rand:5,4,9:40:1/4/0/0,4/6/1/1,16/11/0/0;"
                 "all:2,2,2:1/0/0/0/-12,1/0/1/0/20,0/0/0/0/0/1,0/0/0/1/0/1;rand:4,3,6:60:1/0/0/0/-12,2/4/0/1/10,3/5/1/0/-30,1/0/0/1/40;wedge:9,8,6:30:1/0/0/0,0/0/0/0/0/1,0/0/0/1/0/1,2/4/0/1,3/5/1/0")
    lattice.lattice_stage(ctx, "mc3", plan, clauses)
    lattice.lattice_stage(ctx, "ms2", plan2, {"panic", "snap", "table", "verts", "search", "winding"}, cmd="c01-mesh2",
                          judge="lattice/Mesh2Judge", sitename="MarchingSquares")
    lattice.dc_stage(ctx, "dc", pland, {"panic", "incube", "quads", "orient", "interior"})
    import solids
    solids.judge_stage(ctx, "bisect", ["c02-bisect"], {"panic", "interior", "bracket"}, judge="lattice/BisectJudge",
                       keyfn=lambda rec, clause: "%s:%s:%s" % (rec["site"], clause,
                                                              "converged" if rec["count"] >= 48 or rec["far"] else "coarse"))
    # search refinement on decimal lattices (spacings 0.1, 0.3, 0.7, 0.05; box faces on multiples of the spacing)
    solids.judge_stage(ctx, "search-decimal", ["c02-decimal", "n=%d" % (40 if quick else 600)], {"panic", "nonempty", "bracket"},
                       judge="lattice/DecimalSearchJudge", keyfn=lambda rec, clause: "%s:decimal:%s" % (rec["site"], clause))
    ctx.extra["exhaustive"] = True
