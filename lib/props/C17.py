"""C17 - numerical and curve kernels satisfy their defining equations.

One stage per family; in each, TLC (kernels/KernelGen) enumerates small EXACT inputs, the harness
(c17-kernels) runs the real library on them and projects the float results to scaled integers / error
exponents, and TLC (kernels/KernelJudge) decides every clause in integer arithmetic.
  poly      integer polynomials multiplied out in TLA+ from their roots -> Polynomial.RealRoots / IterRealRoots
  matrix    2x2 / 3x3 / 4x4 integer matrices -> Det, Inverse (= adjugate / det, exactly), MulColumnInv, SVD,
            Eigenvalues (elementary symmetric functions = sums of principal minors), CharPoly; quarter / third
            turns -> NewMatrix{2,3}Rotation (exact signed permutation matrices), general turns (orthogonal, det 1)
  linsolve  integer systems with integer solutions -> LeastSquares3, SparseCholesky, BiCGSTABSolver
  search    integer-valued piecewise-constant objectives, every evaluation logged -> GSS, LineSearch,
            RecursiveLineSearch, GridSearch2D/3D and the toolbox3d wrappers
  angle     multiples of pi/12 -> toolbox3d.CanonicalAngle, AngleDist
  bezier    integer control polygons at dyadic parameters against de Casteljau in scaled integers -> Eval,
            Polynomials, Split, Transpose, InverseX / EvalX, Length
  polyline  axis-parallel integer polylines at every integer arc position -> SegmentCurve, NewSegmentCurveMesh,
            JoinedCurve
"""
import json
import os

import vlib
from vlib import Infra

GEN = ("SPECIFICATION Spec\nCONSTANTS\n  Kind = \"%s\"\n  Size = %d\n  Level = %d\n  Seed = %d\n"
       "CHECK_DEADLOCK FALSE\n")
JUDGE = "SPECIFICATION Spec\nCHECK_DEADLOCK FALSE\n"

# clauses that are sanity checks of the generator / harness: a failure is an infrastructure error
SANITY = {"input", "objective"}
# evaluated and counted, but not part of the property (the documented ordering of the singular values)
OBSERVED = {"SVD:sorted"}


def bezier_degree_class(n):
    return "deg%d" % n if n <= 3 else ("deg4-14" if n <= 14 else "deg15+")


def key_of(rec, clause):
    """key = <function>:<clause>[:<shape>]"""
    fam = rec["fam"]
    site = rec["site"]
    if fam == "poly":
        roots = rec["roots"]
        shape = "simple" if len(set(roots)) == len(roots) else "repeated"
        return "%s:%s:%s" % (site, clause, shape)
    if fam == "matrix":
        if rec["sub"] == "m":
            if clause == "panic":
                return "%s:panic" % site
            fn, cl = clause.split(":", 1)
            return "%s.%s:%s" % (site, fn, cl)
        shape = {"rot2": "plane", "rotg": "general"}.get(rec["sub"]) or ("quarter" if rec["aux"][0] <= 6 else "third")
        return "%s:%s:%s" % (site, clause, shape)
    if fam == "linsolve":
        return "%s:%s" % (site, clause)
    if fam == "search":
        return "%s:%s:%s" % (site, clause, "recursive" if rec["rec"] > 0 else "flat")
    if fam == "angle":
        if clause.startswith("CanonicalAngle"):
            return "toolbox3d.%s:%s" % (clause, "negative" if rec["k"] < 0 else "nonneg")
        return "toolbox3d.%s" % clause
    if fam == "bezier":
        if clause == "panic":
            return "%s:panic:%s" % (site, bezier_degree_class(rec["n"]))
        fn, cl = clause.split(":", 1)
        if fn in ("CurveTranspose", "CurveInverseX"):
            return "model2d.%s:%s" % (fn, cl)
        return "%s.%s:%s:%s" % (site, fn, cl, bezier_degree_class(rec["n"]))
    if fam == "polyline":
        return "%s.Eval:%s" % (site, clause)
    return "%s:%s" % (site, clause)


def describe(rec, clause):
    fam = rec["fam"]
    keep = {
        "poly": ("coef", "roots", "got", "exact", "outcome", "raw"),
        "matrix": ("n", "M", "aux", "det", "inv", "svdRecon", "svdOrtho", "svdSorted", "svdP", "eig", "char", "rot",
                   "rotOrtho", "rotDet", "panic", "raw"),
        "linsolve": ("A", "X", "B", "got", "exact", "resid", "tolOK", "maxIt", "outcome", "panic", "raw"),
        "search": ("lo", "hi", "stops", "rec", "iters", "q", "sense", "obj", "vals", "retCell", "retVal", "repVal",
                   "outcome", "raw"),
        "angle": ("k", "canon", "canonEx", "inRange", "raw"),
        "bezier": ("n", "D", "P", "ev", "len", "ix", "panic"),
        "polyline": ("moves", "scale", "pts", "exact", "panic"),
    }[fam]
    small = {k: rec[k] for k in keep if k in rec}
    if fam == "angle" and clause.startswith("AngleDist"):
        b = rec["bound"]
        small["dist(k, j) for j=-2..2"] = rec["dist"][b - 2:b + 3]
    return "%s: clause %s: %s" % (rec["site"], clause, json.dumps(small)[:600])


def compute(ctx, name, kind, size, level, sample=None):
    """generate -> run the real code -> judge for one family (runs in a worker thread; no ctx bookkeeping here)"""
    g = ctx.tlc("G-" + name, "kernels/KernelGen", GEN % (kind, size, level, ctx.seed % 1000), workers=4, timeout=900,
                tags=("CASE",))
    ctx.require_clean(g, "G-" + name)
    cases = sorted({c[1] for c in g.tagged("CASE")})
    total = len(cases)
    if not cases:
        raise Infra("no cases for " + name)
    if sample and len(cases) > sample:
        import random
        cases = random.Random(ctx.seed).sample(cases, sample)
    cpath = os.path.join(ctx.dir, "cases-%s.ndjson" % name)
    with open(cpath, "w") as fh:
        for c in cases:
            fh.write(c + "\n")
    rpath = os.path.join(ctx.dir, "records-%s.ndjson" % name)
    spath = os.path.join(ctx.dir, "stats-%s.json" % name)
    ctx.drv(["c17-kernels", "in=" + cpath, "out=" + rpath, "stats=" + spath, "kind=" + kind, "seed=%d" % ctx.seed],
            timeout=1500)
    stats = json.load(open(spath))
    j = ctx.tlc("J-" + name, "kernels/KernelJudge", JUDGE, data={"records.ndjson": rpath}, workers=8, timeout=3000,
                heap="8g")
    ctx.require_clean(j, "J-" + name)
    if j.distinct != 2 * stats["records"]:
        raise Infra("judge examined %d states for %d records" % (j.distinct, stats["records"]))
    return {"name": name, "g": g, "j": j, "cases": cases, "total": total, "rpath": rpath, "stats": stats}


def report(ctx, res):
    """bookkeeping and verdicts of one family (main thread, fixed order)"""
    name, stats, cases = res["name"], res["stats"], res["cases"]
    ctx.add_tlc_counts(res["g"])
    ctx.add_tlc_counts(res["j"])
    rejects = res["j"].tagged("REJECT")
    observed = {}
    nrej = 0
    if rejects:
        recs = {r["id"]: r for r in vlib.read_ndjson(res["rpath"])}
        # the smallest failing record of a key becomes its representative (replay file)
        rejects = sorted(rejects, key=lambda x: (len(json.dumps(recs[x[1]])), x[1]))
        for (_, rid, _l, clause) in rejects:
            rec = recs[rid]
            if clause in SANITY:
                raise Infra("%s: generator / harness sanity clause %s failed on %s" % (name, clause, json.dumps(rec)[:400]))
            if clause in OBSERVED:
                observed[clause] = observed.get(clause, 0) + 1
                continue
            nrej += 1
            ctx.violation(key_of(rec, clause), describe(rec, clause),
                          {"spec": "kernels/KernelJudge.tla", "clause": clause, "record": rec})
    ctx.counts["traces_validated_against_impl"] += stats["records"]
    ctx.counts["evaluations"] += stats.get("evaluations", stats["records"])
    ctx.counts["distinct_nontrivial"] += stats["records"]
    ctx.stage(name, kind="R+V", generated=res["total"], used=len(cases), records=stats["records"], rejected=nrej,
              observed_not_enforced=observed,
              sites={k[5:]: v for k, v in stats.items() if k.startswith("site:")},
              outcomes={k[8:]: v for k, v in stats.items() if k.startswith("outcome:")})
    if len(ctx.samples) < 7:
        ctx.samples.append({name: json.loads(cases[len(cases) // 2])})


def stage(ctx, name, kind, size, level, sample=None):
    report(ctx, compute(ctx, name, kind, size, level, sample))


def run(ctx):
    quick = ctx.tier == "quick"
    lvl = 1 if quick else 2
    ctx.rule = ("poly: every product of <= 3 (5) factors (x - r), r in -3..3, x one of 5 quadratic factors x 3 leading "
                "coefficients; matrix: every 2x2 over -2..2 (-3..3), 3x3 diagonal orderings / signed permutations / "
                "symmetric and shear palettes, a 4x4 palette, every quarter and third turn, turns by k pi/12 about 8 axes; "
                "linsolve: every 3..4 (3..6) row subset of a 10-row palette with full rank, graph-Laplacian SPD and "
                "non-symmetric matrices of size <= 4 (6); search: every optimiser x stop count x recursion depth x "
                "objective x centre of the palette; angle: every k pi/12, |k| <= 60 (96), and every pair; bezier: degrees "
                "1..7 and 8..16 x 11 control polygons x every parameter k/4 (k/2); polyline: every axis-parallel "
                "polyline with <= 3 (4) segments of length <= 3 (4), every integer arc position; non-trivial = every record")
    ctx.assumptions = [
        "well-conditioned = simple real roots (polynomials); non-singular with distinct singular values (SVD; decided "
        "by a modular squarefree test of the characteristic polynomial of M^T M); for repeated roots only 'every "
        "reported value is within 1e-2 of a real root' is checked; a matrix with a zero or repeated singular value must "
        "be reconstructed within 1e-6 (2x2, 3x3) or 1e-3 (4x4; the library's own test accepts 1e-4 there)",
        "tolerances: 1e-6 wherever the exact answer is an integer (roots, solutions, inverse * det, dyadic Bezier "
        "points, arc positions); 1e-9 for M * M^-1 = I, U S V^T = M, orthonormality and rotations (1e-6 for the 4x4 SVD, which uses a "
        "numerical quartic root and a random basis completion); BiCGSTAB is run with "
        "MAETolerance = 1e-10 and must meet that tolerance on SPD systems",
        "BiCGSTAB: the right-hand side is non-zero (b = 0 makes the first step 0/0 and the solver panics 'NaN detected'); "
        "convergence is only demanded for symmetric positive definite systems (no breakdown possible); non-symmetric "
        "systems run with an iteration limit and only an answer that meets the tolerance is compared with the solution",
        "search objectives are integer-valued and piecewise constant (g(floor(q x))), so comparisons are exact; GSS is "
        "only given unimodal objectives, as documented",
        "JoinedCurve is checked against its documented parameterisation (equal share of t per sub-curve), not arc "
        "length; the documented ordering of singular values (SVD:sorted) is evaluated but not enforced, the property "
        "only demands reconstruction",
        "LeastSquares3 epsilon = 1e-6 (as in the library's tests); Bezier Length is only checked on straight, "
        "monotonically traversed control polygons of integer length with tol = 1e-6",
    ]
    ctx.build_harness()
    plan = [("poly", "poly", 3 if quick else 5), ("matrix", "matrix", 0), ("linsolve", "linsolve", 4 if quick else 6),
            ("search", "search", 0), ("angle", "angle", 60 if quick else 96), ("bezier", "bezier", 16),
            ("polyline", "polyline", 3 if quick else 4)]
    # the families are independent: generate / run / judge them concurrently, report in the fixed order
    from concurrent.futures import ThreadPoolExecutor
    with ThreadPoolExecutor(max_workers=4 if quick else 3) as pool:
        futs = [pool.submit(compute, ctx, name, kind, size, lvl) for (name, kind, size) in plan]
        results = [f.result() for f in futs]
    for res in results:
        report(ctx, res)
    ctx.extra["exhaustive"] = True
