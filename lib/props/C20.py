"""C20 - a rendered pixel is the mean of its samples of the right scene.

Stages
  est-E   TLC checks EstimatorImpl (the transcription of rayRenderer.estimateColor) against
          Estimator for every NumSamples <= N, MinSamples, sample sequence and answer pattern.
  est-RV  TLC enumerates every setting x answer pattern (EstimatorGen); the harness renders with
          the real RecursiveRayTracer (scripted emissive object, scripted Convergence callback,
          built-in MaxStddev criterion, with and without recursion depth) on one worker and logs
          cast / conv / done per pixel; EstimatorTrace validates every trace.
  pool    PixelPool (mapCoordinates) model-checked for all interleavings; the real renderers run
          under CPU sets of 1, 3 and 16 and every pixel must be cast exactly NumSamples times and
          written with its own value.
  scene   composite / transformed box objects and cameras against the exact SceneJudge oracle.
  radiance  uniform emitters, a matte furnace and a matte floor under a spherical emitter through the
          recursive and the bidirectional tracer at depth limits 1..60 against their closed forms.
"""
import json
import os

import vlib
from vlib import Infra

EST_E = """SPECIFICATION ISpec
CONSTANTS
  MaxN = %d
  Vals = {0, 1, 3}
INVARIANTS NotStuck RefinesFinish Bounds
CHECK_DEADLOCK FALSE
"""
EST_G = "SPECIFICATION GenSpec\nCONSTANTS\n  GenN = %d\nCHECK_DEADLOCK FALSE\n"
POOL = """SPECIFICATION Spec
CONSTANTS
  MaxP = %d
  MaxW = %d
INVARIANTS AtMostOnce AllOnceAtEnd
PROPERTIES Terminates
CHECK_DEADLOCK FALSE
"""
JUDGE = "SPECIFICATION Spec\nCHECK_DEADLOCK FALSE\n"


def estimator_stage(ctx):
    quick = ctx.tier == "quick"
    e = ctx.tlc("est-E", "render/EstimatorImpl", EST_E % (5 if quick else 7), workers=8, timeout=900)
    lead = e.invariant
    if not lead:
        ctx.require_clean(e, "est-E")
    ctx.add_tlc_counts(e)
    g = ctx.tlc("est-G", "render/EstimatorGen", EST_G % (4 if quick else 6), workers=8, timeout=900, tags=("CASE",))
    ctx.require_clean(g, "est-G")
    cases = [json.loads(c[1]) for c in g.tagged("CASE")]
    if not cases:
        raise Infra("no estimator settings generated")
    cpath = os.path.join(ctx.dir, "est-cases.ndjson")
    vlib.write_ndjson(cpath, cases)
    rpath = os.path.join(ctx.dir, "est-records.ndjson")
    spath = os.path.join(ctx.dir, "est-stats.json")
    ctx.drv(["c20-estimator", "in=" + cpath, "out=" + rpath, "stats=" + spath, "reps=%d" % (1 if quick else 2)],
            prefix=["taskset", "-c", "0"])
    stats = json.load(open(spath))
    j = ctx.tlc("est-V", "render/EstimatorTrace", "render/EstimatorTrace.cfg", data={"records.ndjson": rpath},
                workers=16, timeout=1800, heap="8g")
    if j.invariant:
        raise Infra("estimator trace ended without the pixel being written (%s)" % j.invariant)
    ctx.require_clean(j, "est-V")
    ctx.add_tlc_counts(j)
    rejects = j.tagged("REJECT")
    recs = {r["id"]: r for r in vlib.read_ndjson(rpath)}
    for (_, rid, line, clause) in rejects:
        rec = recs[rid]
        early = (len([x for x in rec["ev"] if x["op"] == "cast"]) < rec["num"])
        key = "%s:%s:%s" % (rec["site"], clause, "early-stop" if early else "full")
        ctx.violation(key, "%s NumSamples=%d MinSamples=%d criterion=%s: event %d %s rejected (%s); trace %s" % (
            rec["site"], rec["num"], rec["min"], rec["chk"], line, json.dumps(rec["ev"][line - 1]), clause,
            json.dumps([(x["op"], x["v"] if x["op"] == "cast" else x["b"]) for x in rec["ev"][:-1]])),
            {"spec": "render/EstimatorTrace.tla", "record": rec, "line": line, "clause": clause})
    if lead and not rejects:
        raise Infra("EstimatorImpl (the transcription of estimateColor) violates %s in mode E but no trace of the real "
                    "renderer is rejected: the model is out of date" % lead)
    if any(r.get("panic") for r in recs.values()):
        bad = [r for r in recs.values() if r.get("panic")][0]
        ctx.violation("%s:panic" % bad["site"], "renderer panicked: %s" % bad["panic"][:200], {"record": bad})
    early = sum(1 for r in recs.values() if len([x for x in r["ev"] if x["op"] == "cast"]) < r["num"])
    if early == 0:
        raise Infra("no trace stopped early: the early-stopping clause is not exercised")
    ctx.counts["traces_validated_against_impl"] += stats["records"]
    ctx.counts["evaluations"] += stats["events"]
    ctx.counts["distinct_nontrivial"] += early
    ctx.stage("estimator", kind="E+R+V", model_lead=lead or "", settings=len(cases), traces=stats["records"],
              events=stats["events"], stopped_early=early, rejected=len(rejects))
    ctx.samples.append({"estimator_trace": recs[min(40, len(recs))]})


def judge_scene(ctx, name, rpath, nrecords, clauses):
    j = ctx.tlc("J-" + name, "render/SceneJudge", JUDGE, data={"records.ndjson": rpath}, workers=16, timeout=1800,
                heap="8g", tags=("REJECT", "NOTE"))
    ctx.require_clean(j, "J-" + name)
    ctx.add_tlc_counts(j)
    if j.distinct != 2 * nrecords:
        raise Infra("scene judge examined %d states for %d records" % (j.distinct, nrecords))
    recs = {r["id"]: r for r in vlib.read_ndjson(rpath)}
    rejects = [x for x in j.tagged("REJECT") if x[3] in clauses]
    for (_, rid, _l, clause) in rejects:
        rec = recs[rid]
        key = "%s:%s:%s" % (rec.get("site", "?"), rec["kind"], clause)
        if rec["kind"] == "camera":
            key += ":square" if rec["w"] == rec["h"] else ":non-square"
        small = {k: v for k, v in rec.items() if k not in ("rays", "pts", "casts", "dataok")}
        ctx.violation(key, "%s record #%d (%s): clause %s: %s" % (rec.get("site"), rid, rec["kind"], clause,
                                                                  json.dumps(small)[:300]),
                      {"spec": "render/SceneJudge.tla", "clause": clause, "record": rec})
    decided = sum(x[2] for x in j.tagged("NOTE"))
    ctx.counts["traces_validated_against_impl"] += nrecords
    ctx.counts["evaluations"] += nrecords
    return len(rejects), decided


def pool_stage(ctx):
    quick = ctx.tier == "quick"
    e = ctx.tlc("pool-E", "render/PixelPool", POOL % ((4, 3) if quick else (6, 4)), workers=8, timeout=1200)
    if e.invariant or (e.error and "emporal" in e.error):
        raise Infra("PixelPool violates its own requirement: %s" % (e.invariant or e.error))
    ctx.require_clean(e, "pool-E")
    ctx.add_tlc_counts(e)
    # the same protocol for ANY number of pixels and workers: PixelPool refines PixelPoolProof (checked by TLC for
    # the bounded constants), whose safety theorems the TLA+ proof system checks without bounds (thorough tier)
    proof = {}
    for (mp, mw) in ([(4, 3), (5, 2)] if quick else [(4, 3), (5, 2), (6, 4), (7, 2)]):
        r = ctx.tlc("pool-ref-%dx%d" % (mp, mw), "render/PixelPoolRef",
                    "SPECIFICATION RefSpec\nCONSTANTS\n  MaxP = %d\n  MaxW = %d\nPROPERTIES AbsSpec\n"
                    "INVARIANTS AbsInv AtMostOnce AllOnceAtEnd\nCHECK_DEADLOCK FALSE\n" % (mp, mw),
                    workers=8, timeout=1200, generated=ctx.tlaps_module())
        if r.invariant or (r.error and "emporal" in r.error):
            raise Infra("PixelPool does not refine PixelPoolProof: %s" % (r.invariant or r.error))
        ctx.require_clean(r, "pool-ref")
        ctx.add_tlc_counts(r)
    if not quick:
        ok, nobl, tail = ctx.tlaps("pool-proof", "render/PixelPoolProof")
        proof = {"tlaps_proved": ok, "obligations": nobl}
        if not ok:
            vlib.log("  (the unbounded proof did not go through here; the bounded model checking above stands)\n" + tail[-400:])
    rpath = os.path.join(ctx.dir, "pix-records.ndjson")
    open(rpath, "w").close()
    n = 0
    cpus = []
    for i, cpuset in enumerate(["0", "0-2", None]):
        part = os.path.join(ctx.dir, "pix-%d.ndjson" % i)
        spath = os.path.join(ctx.dir, "pix-stats-%d.json" % i)
        ctx.drv(["c20-pixels", "out=" + part, "stats=" + spath, "firstid=%d" % n],
                prefix=(["taskset", "-c", cpuset] if cpuset else None))
        st = json.load(open(spath))
        cpus.append(st["cpus"])
        n += st["records"]
        with open(rpath, "a") as fh:
            fh.write(open(part).read())
    if len(set(cpus)) < 2:
        raise Infra("CPU affinity did not change the worker count: %s" % cpus)
    rej, _ = judge_scene(ctx, "pool", rpath, n, {"once"})
    ctx.counts["distinct_nontrivial"] += n
    ctx.stage("pixel-pool", kind="E+V", model_states=e.distinct, renders=n, worker_counts=cpus, rejected=rej, **proof)


def scene_stage(ctx):
    quick = ctx.tier == "quick"
    rpath = os.path.join(ctx.dir, "scene-records.ndjson")
    spath = os.path.join(ctx.dir, "scene-stats.json")
    ctx.drv(["c20-scene", "out=" + rpath, "stats=" + spath, "scenes=%d" % (40 if quick else 400),
             "rays=%d" % (40 if quick else 60), "cams=%d" % (4 if quick else 12), "shadows=%d" % (60 if quick else 600),
             "seed=%d" % ctx.seed])
    stats = json.load(open(spath))
    rej, decided = judge_scene(ctx, "scene", rpath, stats["records"], {"nearest", "lit", "lights", "frame", "caster", "uncaster"})
    if decided < 100:
        raise Infra("only %d rays were decided by the scene oracle" % decided)
    ctx.counts["distinct_nontrivial"] += decided
    ctx.stage("scene", kind="V", records=stats["records"], rays_decided=decided, rejected=rej,
              sites={k[5:]: v for k, v in stats.items() if k.startswith("site:")})


def radiance_stage(ctx):
    """Scenes with closed-form radiance through RecursiveRayTracer and BidirPathTracer (RadianceJudge)."""
    import solids
    quick = ctx.tier == "quick"
    solids.judge_stage(ctx, "radiance", ["c20-radiance", "floorsamples=%d" % (20000 if quick else 60000)],
                       {"panic", "finite", "closed-form"}, judge="render/RadianceJudge",
                       keyfn=lambda rec, clause: "%s:%s:%s" % (rec["site"], rec["kind"], clause))


def run(ctx):
    ctx.rule = ("estimator: every (NumSamples <= 4 (6), MinSamples, criterion on/off, answer pattern) x 3 renderer "
                "configurations x 4 pixels with seeded sample values; pixel pool: all interleavings of <= 3 (4) workers over <= 4 (6) "
                "pixels in the model, five image sizes x three CPU sets on the real renderers; scenes: seeded box scenes under "
                "transform chains x four composite structures x aimed integer rays, eight frame sizes of axis-aligned cameras; "
                "non-trivial = traces that stopped early + rays decided (general position, hit) + renders")
    ctx.assumptions = ["radiance values are small integers, so 840 * pixel is an exact integer",
                       "one worker (taskset -c 0) in the estimator stage so that consultations are attributable to pixels"]
    ctx.build_harness()
    estimator_stage(ctx)
    pool_stage(ctx)
    scene_stage(ctx)
    radiance_stage(ctx)
