"""C18 - surface parameterisations are valid, disjoint and invertible.

Stages
  E        Charts.tla: the chart-growing loop (seed, priority-free pop with the code's
           "would divide the boundary" guard, close, sphere cut) on a tetrahedron, octahedron and annulus
           exhaustively (every order) and on a 3x3 torus by simulation: every prefix is a disc, finished
           charts are discs and partition the faces.
  charts   MeshToPlaneGraphs / ...Limited (size and area limits) / SplitPlaneGraph on closed meshes of
           genus 0-2, multi-component and open meshes: TLC (ChartJudge) checks the partition and that every
           chart is a topological disc; Floater97 with three weightings and three boundary shapes on the
           resulting discs and on one-interior-vertex fans: weighted-mean and no-flip clauses (tolerance
           decided in the harness); BuildAutomaticUVMap: unit square, disjoint chart boxes, barycentric
           round trip through MapFn.
  mapfn    TLC (IslandGen) enumerates lattice layouts of UV islands; MapFn is queried on the half lattice
           incl. gutters and TLC compares the squared distance of the point it used with the exact minimum;
           Bounds2D, Area3D and ToBounds of the same layouts are compared with their exact values.
           StretchMinimizingParameterization on the discs of stage charts (boundary fixed, no flips);
           ExtendBoundaryUVs (only tips of boundary triangles move, by at most maxDist, never towards degeneracy).
"""
import json
import os

import vlib
from vlib import Infra

CHARTS = "SPECIFICATION Spec\nCONSTANTS\n  Seed = \"%s\"\nINVARIANTS GrowingIsDisc ChartsAreDiscs Partition Complete\nCHECK_DEADLOCK FALSE\n"
ISL = "SPECIFICATION Spec\nCONSTANTS\n  G = %d\n  K = %d\nCHECK_DEADLOCK FALSE\n"
JUDGE = "SPECIFICATION Spec\nCHECK_DEADLOCK FALSE\n"
CLAUSES = {"panic", "partition", "disc", "limit", "mean", "noflip", "boundary", "unit", "disjoint", "bary", "nearest",
           "extend", "bounds2d", "area3d", "tobounds"}


def judge(ctx, name, rpath, nrecords):
    j = ctx.tlc("J-" + name, "param/ChartJudge", JUDGE, data={"records.ndjson": rpath}, workers=16, timeout=3000, heap="10g")
    ctx.require_clean(j, "J-" + name)
    ctx.add_tlc_counts(j)
    if j.distinct != 2 * nrecords:
        raise Infra("judge examined %d states for %d records" % (j.distinct, nrecords))
    rejects = [x for x in j.tagged("REJECT") if x[3] in CLAUSES]
    if rejects:
        recs = {r["id"]: r for r in vlib.read_ndjson(rpath)}
        for (_, rid, _l, clause) in rejects:
            rec = recs[rid]
            key = "%s:%s" % (rec["site"].split(":")[0], clause)
            small = {k: v for k, v in rec.items() if k not in ("charts", "ids", "qs", "tris", "rects")}
            ctx.violation(key, "%s on %s: clause %s: %s" % (rec["site"], rec.get("mesh", "islands"), clause,
                                                           json.dumps(small)[:300]),
                          {"spec": "param/ChartJudge.tla", "clause": clause, "record": rec})
    ctx.counts["traces_validated_against_impl"] += nrecords
    ctx.counts["evaluations"] += nrecords
    ctx.counts["distinct_nontrivial"] += nrecords
    return len(rejects)


def run(ctx):
    quick = ctx.tier == "quick"
    ctx.rule = ("chart model: every growth order on tetrahedron / octahedron / annulus, simulated orders on a 3x3 torus; real "
                "code: 12 meshes x 5 decomposition calls + splits, Floater97 3 weightings x 3 boundaries on the resulting "
                "discs and 5 fans, 5 atlases; every layout of 3 (4) islands on a 3x3 (4x4) lattice x ~250 queries")
    ctx.assumptions = ["Floater97 weighted-mean clause uses tolerance 1e-5 (the default BiCGSTAB solver is iterative)",
                       "atlas chart boxes are rounded outwards to 1e-6 units before TLC tests disjointness",
                       "StretchMinimizingParameterization: boundary fixed and no flips only (its weights are re-estimated)",
                       "ExtendBoundaryUVs: only tips of boundary triangles move, by at most maxDist, never towards degeneracy"]
    ctx.build_harness()
    for seed in ["tetra", "octa", "annulus"]:
        e = ctx.tlc("E-" + seed, "param/Charts", CHARTS % seed, workers=8, timeout=600)
        if e.invariant:
            raise Infra("Charts.tla violates %s on %s: the model of the chart loop is wrong or the design is - "
                        "investigate before trusting the real-code stages" % (e.invariant, seed))
        ctx.require_clean(e, "E-" + seed)
        ctx.add_tlc_counts(e)
        ctx.stage("charts-model-" + seed, kind="E", states=e.distinct)
    e = ctx.tlc("E-torus", "param/Charts", CHARTS % "torus", workers=1, timeout=300,
                simulate="num=%d" % (150 if quick else 3000), depth=80)
    if e.invariant:
        raise Infra("Charts.tla violates %s on the torus" % e.invariant)
    ctx.require_clean(e, "E-torus", allow_sim=True)
    ctx.stage("charts-model-torus", kind="E-simulate", generated=e.generated)

    rpath = os.path.join(ctx.dir, "records-charts.ndjson")
    spath = os.path.join(ctx.dir, "stats-charts.json")
    ctx.drv(["c18-param", "kind=charts", "out=" + rpath, "stats=" + spath, "seed=%d" % ctx.seed], timeout=1200)
    st = json.load(open(spath))
    if st.get("extend-moved", 0) == 0 and not st.get("aborted_after_hangs"):
        raise Infra("ExtendBoundaryUVs moved no vertex in any record: the extend clause would be vacuous")
    rej = judge(ctx, "charts", rpath, st["records"])
    ctx.stage("charts", kind="V", records=st["records"], rejected=rej)

    g = ctx.tlc("G-islands", "param/IslandGen", ISL % ((3, 3) if quick else (4, 4)), workers=8, timeout=600, tags=("CASE",))
    ctx.require_clean(g, "G-islands")
    ctx.add_tlc_counts(g)
    cases = sorted({c[1] for c in g.tagged("CASE")})
    if not quick and len(cases) > 1200:
        import random
        cases = random.Random(ctx.seed).sample(cases, 1200)
    cpath = os.path.join(ctx.dir, "cases-islands.ndjson")
    with open(cpath, "w") as fh:
        for c in cases:
            fh.write(c + "\n")
    rpath = os.path.join(ctx.dir, "records-mapfn.ndjson")
    spath = os.path.join(ctx.dir, "stats-mapfn.json")
    ctx.drv(["c18-param", "kind=mapfn", "in=" + cpath, "out=" + rpath, "stats=" + spath, "g=%d" % (3 if quick else 4)],
            timeout=1200)
    st = json.load(open(spath))
    rej = judge(ctx, "mapfn", rpath, st["records"])
    ctx.stage("mapfn", kind="R+V", layouts=len(cases), records=st["records"], rejected=rej)
    ctx.samples.append({"island_layout": json.loads(cases[len(cases) // 2])})
