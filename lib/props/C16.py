"""C16 - decoders reject malformed input with an error instead of crashing.

Stages (per format: OFF, ASCII STL, binary STL, ASCII PLY, binary PLY, segment CSV)
  G   TLC enumerates CodecFaults: every valid variant of the format x every structured fault
      (truncation at every line and inside lines, every token replaced by every value of its
      adversarial set, dropped / duplicated tokens and lines, blank lines) and every byte-level fault
      (the rendered file cut at, damaged at or extended at 25 (97) evenly spread byte positions
      with eight adversarial byte values).
  R   the harness renders each case to bytes and runs every decoder of the format on it
      (mesh-level reader, streaming reader to EOF, header decoder) with a deadline, a panic
      guard and an allocation meter; a process death is attributed to the case that caused it.
  V   TLC (CodecJudge) judges each recorded outcome: returned data or an error (no panic, no
      crash), terminated with at most one row per input byte, allocated <= 4 MiB + 1 KiB/byte.
  csv-fields  the segment CSV format once more at the level of fields (see csv_fields_stage).
"""
import json

import codec
import vlib
from vlib import Infra

JUDGE_CFG = "SPECIFICATION Spec\nCHECK_DEADLOCK FALSE\n"


def csv_fields_stage(ctx):
    """Segment CSV at the level of fields: TLC enumerates files of <= 2 (thorough 3) rows in which every row carries its
    own row fault (3 / 5 / 0 fields on any row incl. the first, trailing comma, blank line, quoted fields, lone quote,
    empty / non-numeric field) together with what the format prescribes (error / these segments / either); the
    harness runs DecodeCSV and SegmentCSVReader; CsvFieldJudge compares."""
    cpath, n = codec.gen_cases(ctx, "csvf", False)
    rpath, stats = codec.run_faults(ctx, "csvf", cpath, n, "csvf")
    j = ctx.tlc("J-csvf", "codec/CsvFieldJudge", JUDGE_CFG, data={"records.ndjson": rpath}, workers=16, timeout=1800,
                heap="10g")
    ctx.require_clean(j, "J-csvf")
    ctx.add_tlc_counts(j)
    if j.distinct != 2 * stats["records"]:
        raise Infra("judge csvf examined %d states for %d records" % (j.distinct, stats["records"]))
    rejects = [x for x in j.tagged("REJECT") if x[3] in {"panic", "hang", "alloc", "expect"}]
    recs = {r["id"]: r for r in vlib.read_ndjson(rpath)}
    expects = {}
    for r in recs.values():
        expects[r.get("expect", "")] = expects.get(r.get("expect", ""), 0) + 1
    if not all(expects.get(k) for k in ("ok", "err", "any")) or stats.get("outcome:err", 0) == 0 or stats.get("outcome:ok", 0) == 0:
        raise Infra("csv field stage is vacuous: %s %s" % (expects, stats))
    for (_, rid, _l, clause) in rejects:
        rec = recs[rid]
        first_bad = next((x for x in rec["s"].split("/") if x not in ("ok", "quoted") and not x.startswith("q1")), "none")
        what = {"expect": {"err": "malformed-file-accepted", "ok": "valid-file-rejected-or-changed",
                           "any": "wrong-segments"}.get(rec.get("expect"), "expect")}.get(clause, clause)
        ctx.violation("%s:csv-fields:%s:%s" % (rec["site"], what, first_bad),
                      "%s record #%d rows=%s expect=%s: clause %s: %s" % (
                          rec["site"], rid, rec["s"], rec.get("expect"), clause,
                          json.dumps({k: rec[k] for k in rec if k not in ("hex",)})[:400] + " " + rec.get("hex", "")[:200]),
                      {"spec": "codec/CsvFieldJudge.tla", "clause": clause, "record": rec})
    ctx.counts["traces_validated_against_impl"] += stats["records"]
    ctx.counts["evaluations"] += stats["records"]
    ctx.stage("csv-fields", kind="G+R+V", cases=n, records=stats["records"], rejected=len(rejects), expected=expects,
              outcomes={k[8:]: v for k, v in stats.items() if k.startswith("outcome:")},
              decoders={k[5:]: v for k, v in stats.items() if k.startswith("site:")})
    return stats["records"], stats["records"] - expects.get("ok", 0)


def run(ctx):
    ctx.level = "fault_enumeration"
    ctx.rule = ("every (valid variant x structured fault) pair of the token-stream model CodecFaults.tla for six formats, "
                "each run through every decoder of the format; non-trivial = faulted inputs (all but the unfaulted files)")
    ctx.assumptions = ["faults are structured (token level) plus single-byte cuts / replacements / insertions at evenly spread positions; multi-byte random damage is not enumerated",
                       "allocation bound 4 MiB + 1 KiB per input byte (TotalAlloc delta of the decoder call)",
                       "a truncated binary STL cut at a record boundary may be accepted (the property allows data or error)"]
    ctx.build_harness()
    total = 0
    nontrivial = 0
    for fmt in codec.FORMATS:
        cpath, n = codec.gen_cases(ctx, fmt, False)
        rpath, stats = codec.run_faults(ctx, fmt, cpath, n, fmt)
        rej = codec.judge(ctx, fmt, rpath, stats["records"], {"panic", "hang", "alloc"}, codec.fault_key)
        total += stats["records"]
        nontrivial += stats["records"] - stats.get("valid", 0)
        ctx.stage(fmt, kind="G+R+V", cases=n, records=stats["records"], rejected=rej,
                  outcomes={k[8:]: v for k, v in stats.items() if k.startswith("outcome:")},
                  decoders={k[5:]: v for k, v in stats.items() if k.startswith("site:")}, crashes=stats.get("crash", 0))
        if stats.get("outcome:err", 0) == 0 or stats.get("outcome:ok", 0) == 0:
            raise Infra("fault stage %s is vacuous: %s" % (fmt, stats))
    n_rec, n_malformed = csv_fields_stage(ctx)
    total += n_rec
    nontrivial += n_malformed
    ctx.counts["distinct_nontrivial"] = nontrivial
    ctx.extra["exhaustive"] = True
    ctx.samples.append({"format": "off", "fault": "repl(k=2,j=1,s=-1): vertex count replaced by -1"})
