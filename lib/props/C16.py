"""C16 - decoders reject malformed input with an error instead of crashing.

Stages (per format: OFF, ASCII STL, binary STL, ASCII PLY, binary PLY, segment CSV)
  G   TLC enumerates CodecFaults: every valid variant of the format x every structured fault
      (truncation at every line and inside lines, every token replaced by every value of its
      adversarial set, dropped / duplicated tokens and lines, blank lines).
  R   the harness renders each case to bytes and runs every decoder of the format on it
      (mesh-level reader, streaming reader to EOF, header decoder) with a deadline, a panic
      guard and an allocation meter; a process death is attributed to the case that caused it.
  V   TLC (CodecJudge) judges each recorded outcome: returned data or an error (no panic, no
      crash), terminated with at most one row per input byte, allocated <= 4 MiB + 1 KiB/byte.
"""
import codec
from vlib import Infra


def run(ctx):
    ctx.level = "fault_enumeration"
    ctx.rule = ("every (valid variant x structured fault) pair of the token-stream model CodecFaults.tla for six formats, "
                "each run through every decoder of the format; non-trivial = faulted inputs (all but the unfaulted files)")
    ctx.assumptions = ["faults are structured (token level); arbitrary byte mutations are only reached through them",
                       "allocation bound 4 MiB + 1 KiB per input byte (TotalAlloc delta of the decoder call)",
                       "a truncated binary STL cut at a record boundary may be accepted (the property allows data or error)"]
    ctx.build_harness()
    total = 0
    nontrivial = 0
    for fmt in codec.FORMATS:
        cpath, n = codec.gen_cases(ctx, fmt, False)
        rpath, stats = codec.run_faults(ctx, fmt, cpath, n, fmt)
        rej = codec.judge(ctx, fmt, rpath, stats["records"], {"panic", "hang", "alloc"}, codec.fault_key)
        total += stats["records"]
        nontrivial += stats["records"] - stats.get("valid", 0)
        ctx.stage(fmt, kind="G+R+V", cases=n, records=stats["records"], rejected=rej,
                  outcomes={k[8:]: v for k, v in stats.items() if k.startswith("outcome:")},
                  decoders={k[5:]: v for k, v in stats.items() if k.startswith("site:")}, crashes=stats.get("crash", 0))
        if stats.get("outcome:err", 0) == 0 or stats.get("outcome:ok", 0) == 0:
            raise Infra("fault stage %s is vacuous: %s" % (fmt, stats))
    ctx.counts["distinct_nontrivial"] = nontrivial
    ctx.extra["exhaustive"] = True
    ctx.samples.append({"format": "off", "fault": "repl(k=2,j=1,s=-1): vertex count replaced by -1"})
