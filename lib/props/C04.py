"""C04 - solid combinators implement exact, order-independent set algebra."""
import solids


def run(ctx):
    quick = ctx.tier == "quick"
    ctx.rule = ("seeded random expression trees (depth <= 3) over integer boxes through every combinator and wrapper, "
                "plus operand lists of 2-4 boxes (duplicates allowed) in EVERY permutation through every n-ary combinator, "
                "probed on the half-integer grid; smooth joins on every tuple of operand distances; non-trivial = the "
                "solid contains at least one probe")
    ctx.assumptions = ["boxes are closed (Rect.Contains is inclusive), probes include points on box faces",
                       "rational point arithmetic in the spec; float arithmetic on these dyadic values is exact"]
    ctx.build_harness()
    solids.judge_stage(ctx, "trees", ["c04-solids", "trees=%d" % (250 if quick else 3000), "perms=%d" % (6 if quick else 60),
                                      "depth=3", "range=%d" % (7 if quick else 8)],
                       {"panic", "exact", "mux"})
    import c04_smooth
    c04_smooth.run(ctx)
    solids.judge_stage(ctx, "rectops", ["c04-rectops", "n=%d" % (80 if quick else 1500)], {"panic", "exact", "exact2", "bounds"},
                       judge="solids/RectOpsJudge", keyfn=lambda rec, clause: "toolbox3d.RectSet:history:%s" % clause)
