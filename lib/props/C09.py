"""C09 - a mesh always answers as the plain set of its current faces would.

Stages
  E   exhaustive TLC of MeshADT (abstract faces + transcribed lazy index): IndexConsistent,
      QueriesAgree for every reachable state, 3-D and 2-D constants.
  R   TLC enumerates every history of K operations (plus -simulate samples of long ones);
      the harness executes them against the real model3d.Mesh / model2d.Mesh under four
      coordinate realisations (plain, hash-colliding, signed zero, both).
  V   TLC (MeshTrace) replays every recorded history through the MeshADT actions and
      compares every logged observation with the plain-set semantics.
  M   the same for the coordinate-keyed maps (CoordMapADT / MapTrace).
"""
import json
import os

import vlib
from vlib import Infra, log

GEN_CFG = """SPECIFICATION GenSpec
CONSTANTS
  ARITY = %(arity)d
  NV = 4
  Pool <- Pool%(arity)d
  Maps <- Maps%(arity)d
  Pos <- Pos%(arity)d
  MaxId = %(maxid)d
  MaxLen = %(maxlen)d
INVARIANTS Emit
CHECK_DEADLOCK FALSE
"""

TRACE_CFG = """SPECIFICATION TSpec
CONSTANTS
  ARITY = %(arity)d
  NV = 4
  Pool <- Pool%(arity)d
  Maps <- Maps%(arity)d
  Pos <- Pos%(arity)d
  MaxId = %(maxid)d
  MaxLen = 0
INVARIANTS TIndexConsistent
CHECK_DEADLOCK TRUE
"""


def mesh_stage(ctx, dim):
    quick = ctx.tier == "quick"
    klen = 2 if quick else 3
    sim_n = 150 if quick else 1500
    sim_depth = 8 if quick else 12
    rand_n = 40 if quick else 400
    rand_len = 40 if quick else 120
    maxid = 60
    beh = []
    r = ctx.tlc("G%d" % dim, "mesh/MCMesh", GEN_CFG % dict(arity=dim, maxid=14, maxlen=klen),
                workers=8, timeout=900)
    ctx.require_clean(r, "G%d" % dim)
    ctx.add_tlc_counts(r)
    exhaustive_n = len(r.tagged("BEHAVIOUR"))
    allb = [json.loads(b[1]) for b in r.tagged("BEHAVIOUR")]
    if len(allb) > 6000:
        # thorough tier: every history of length 3 is generated (28 031); a seeded 6 000 of them are executed
        # under the four realisations (the trace file would otherwise exceed what one TLC run can hold)
        import random
        allb = random.Random(ctx.seed).sample(allb, 6000)
    beh += allb
    r = ctx.tlc("G%ds" % dim, "mesh/MCMesh", GEN_CFG % dict(arity=dim, maxid=40, maxlen=sim_depth),
                workers=1, timeout=600, simulate="num=%d" % sim_n, depth=sim_depth + 1)
    ctx.require_clean(r, "G%ds" % dim, allow_sim=True)
    seen = set()
    for b in r.tagged("BEHAVIOUR"):
        if b[1] not in seen and len(seen) < sim_n:
            seen.add(b[1])
            beh.append(json.loads(b[1]))
    if exhaustive_n == 0 or not seen:
        raise Infra("behaviour generation produced nothing (dim %d)" % dim)
    bpath = os.path.join(ctx.dir, "behaviours%d.ndjson" % dim)
    vlib.write_ndjson(bpath, beh)
    rpath = os.path.join(ctx.dir, "records%d.ndjson" % dim)
    spath = os.path.join(ctx.dir, "stats%d.json" % dim)
    ctx.drv(["c09-mesh", "in=" + bpath, "out=" + rpath, "dim=%d" % dim, "stats=" + spath,
             "random=%d" % rand_n, "len=%d" % rand_len, "maxid=%d" % maxid, "seed=%d" % ctx.seed])
    stats = json.load(open(spath))
    # the trace file is validated in chunks of <= 40 MB (TLC deserialises a whole file into memory)
    rejects = []
    judge_states = 0
    chunk, size, nchunk = [], 0, 0

    def flush():
        nonlocal chunk, size, nchunk, judge_states
        if not chunk:
            return
        nchunk += 1
        cpath = os.path.join(ctx.dir, "records%d-%d.ndjson" % (dim, nchunk))
        with open(cpath, "w") as fh:
            fh.writelines(chunk)
        j = ctx.tlc("V%d-%d" % (dim, nchunk), "mesh/MeshTrace", TRACE_CFG % dict(arity=dim, maxid=maxid),
                    data={"records.ndjson": cpath}, workers=16, timeout=2400, heap="8g")
        ctx.require_clean(j, "V%d-%d" % (dim, nchunk))
        ctx.add_tlc_counts(j)
        judge_states += j.distinct
        rejects.extend(j.tagged("REJECT"))
        os.remove(cpath)
        chunk, size = [], 0

    with open(rpath) as fh:
        for ln in fh:
            chunk.append(ln)
            size += len(ln)
            if size > 40 * 1024 * 1024:
                flush()
    flush()

    class _J:
        distinct = judge_states
    j = _J()
    recs = None
    if rejects:
        recs = {r["id"]: r for r in vlib.read_ndjson(rpath)}
    for (_, rid, line, clause) in rejects:
        rec = recs[rid]
        ev = rec["ev"][line - 1]
        key = "model%dd.Mesh:%s:%s:%s" % (dim, rec["real"], ev.get("via") or ev["op"], clause)
        what = "history #%d (%s realisation) rejected at op %d (%s a=%s b=%s): clause %s" % (
            rid, rec["real"], line, ev["op"], ev["a"], ev["b"], clause)
        ctx.violation(key, what, {"spec": "mesh/MeshTrace.tla", "record": {
            "id": rid, "real": rec["real"], "ev": rec["ev"][:line]}})
    ctx.counts["traces_validated_against_impl"] += stats["records"]
    ctx.counts["evaluations"] += stats["records"]
    ctx.counts["distinct_nontrivial"] += stats.get("mutation_after_index", 0)
    ctx.stage("mesh%dd" % dim, exhaustive_histories=exhaustive_n, executed_of_exhaustive=min(exhaustive_n, 6000), exhaustive_len=klen,
              simulated_histories=len(seen), simulated_len=sim_depth, go_random_histories=rand_n,
              go_random_len=rand_len, records=stats["records"], events=stats["events"],
              mutation_after_index=stats.get("mutation_after_index", 0),
              with_derived_mesh=stats.get("with_derived_mesh", 0), panics=stats.get("panics", 0),
              rejected=len(rejects), judge_states=j.distinct)
    if not ctx.samples:
        ctx.samples.append({"history": beh[len(beh) // 2], "realisations": 4})


def e_stage(ctx):
    cfgs = ["E3", "E3d", "E2", "E2d"]
    if ctx.tier == "thorough":
        cfgs += []
    for st in cfgs:
        r = ctx.tlc(st, "mesh/MCMesh", "mesh/MCMesh_%s.cfg" % st, workers=16, timeout=1500)
        if r.invariant:
            # a bad state of the *model* is a lead, never a verdict
            raise Infra("model invariant %s violated in %s: the specification itself is inconsistent" % (r.invariant, st))
        ctx.require_clean(r, st)
        ctx.add_tlc_counts(r)
        ctx.stage(st, kind="E", distinct=r.distinct, generated=r.generated, depth=r.depth)


def run(ctx):
    ctx.level = "model_checking"
    ctx.rule = ("histories = every sequence of K mesh operations from the MeshADT vocabulary (TLC-enumerated), "
                "TLC -simulate samples and Go-random long histories, each under 4 coordinate realisations; "
                "non-trivial = the history mutates a mesh after its lazy index was built")
    ctx.assumptions = ["vertex classes realised by 4 fixed coordinates (incl. +0/-0 and one fast-hash collision)",
                       "NaN coordinates excluded"]
    ctx.build_harness()
    e_stage(ctx)
    mesh_stage(ctx, 3)
    mesh_stage(ctx, 2)
    import c09_maps
    c09_maps.run(ctx)
    if ctx.tier != "quick":
        # the index protocol (Add / Remove / first query) for ANY pool, vertex set and history length, by the TLA+
        # proof system (about the design; never a verdict)
        ok, nobl, tail = ctx.tlaps("index-proof", "mesh/MeshIndexProof")
        ctx.stage("index-proof", kind="P", tlaps_proved=ok, obligations=nobl)
        if not ok:
            vlib.log("  (the unbounded proof did not go through here; the bounded model checking stands)\n" + tail[-400:])
    # the library's own editors applied to a mesh whose lazy index already exists
    import solids
    solids.judge_stage(ctx, "editors", ["c09-editors"], {"panic", "vertices", "find", "neighbors"},
                       judge="mesh/EditorJudge", keyfn=lambda rec, clause: "model3d.Mesh:editor:%s:%s" % (rec["site"], clause))
