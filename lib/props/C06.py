"""C06 - signed distance fields report true distance, nearest point and normal."""
import solids


def run(ctx):
    quick = ctx.tier == "quick"
    ctx.rule = ("voxel worlds (every non-empty subset of a 2x2x2 grid, seeded larger ones) as mesh SDFs, probed on the "
                "half-integer grid: sign, exact squared distance, nearest point in the tie set, face normal; non-trivial "
                "= every record")
    ctx.assumptions = ["distances are compared squared (exact integers in half units)",
                       "where several faces are equally near, any of them is admissible", "curved primitives: see level_note"]
    ctx.build_harness()
    plan = "all:2,2,2;rand:3,3,2:%d;rand:4,3,3:%d" % ((40, 10) if quick else (600, 150))
    solids.judge_stage(ctx, "voxel", ["c07-voxel", "kinds=sdf", "plan=" + plan, "sdf=%d" % (60 if quick else 150)],
                       {"panic", "sdf-sign", "sdf-dist", "sdf-point", "sdf-normal"}, judge="geom/VoxelJudge", timeout=3000)
    import c06_prims
    c06_prims.run(ctx)
