"""C06 - signed distance fields report true distance, nearest point and normal.

Stage "voxel" (harness c07-voxel, judge spec/geom/VoxelJudge.tla): MeshToSDF on voxel worlds; derived fields on the
same exact oracle: ColliderToSDF (bisection: judged to its bisection resolution d * 2^-iterations + 2^-(iterations-1)),
and on extrusions (a pixel set times a z range, plan items extall / ext) ProfileSDF(MeshToSDF), ProfilePointSDF(MeshToSDF)
and ProfileSDF(model2d.ColliderToSDF) over the 2-D outline of the pixel set.  Stage "prims": see c06_prims."""
import solids


def run(ctx):
    quick = ctx.tier == "quick"
    ctx.rule = ("voxel worlds (every non-empty subset of a 2x2x2 grid, seeded larger ones) as mesh SDFs and collider-derived "
                "SDFs, extrusions of pixel sets as profile SDFs, probed on the half-integer grid: sign, exact squared "
                "distance, nearest point in the tie set, face normal; non-trivial = every record")
    ctx.assumptions = ["distances are compared squared (exact integers in half units)",
                       "where several faces are equally near, any of them is admissible", "curved primitives: see level_note",
                       "ColliderToSDF is judged to its bisection resolution only"]
    ctx.build_harness()
    plan = "all:2,2,2;rand:3,3,2:%d;rand:4,3,3:%d" % ((40, 10) if quick else (600, 150))
    plan += ";extall:2,2,2;ext:3,3,2:%d;ext:4,3,3:%d" % ((25, 6) if quick else (300, 80))
    solids.judge_stage(ctx, "voxel", ["c07-voxel", "kinds=sdf", "derived=1", "plan=" + plan, "sdf=%d" % (60 if quick else 150)],
                       {"panic", "sdf-sign", "sdf-dist", "sdf-point", "sdf-normal", "concurrent"}, judge="geom/VoxelJudge", timeout=3000)
    import c06_prims
    c06_prims.run(ctx)
    # 2-D mesh fields (MeshToSDF, GroupedSegmentsToSDF) on pixel worlds and integer polygons: exact rational squared
    # distance, even-odd sign off the outline, nearest point / face / normal consistent with the distance
    import c08_accel2
    c08_accel2.run(ctx, clauses=c08_accel2.C06_CLAUSES, kinds="sdf")
    # transform-derived fields: every chain of distance-preserving-up-to-scale transform atoms around a box field
    from props import C05
    C05.chains_stage(ctx, clauses={"panic", "sdf"}, label="transformed-fields")
