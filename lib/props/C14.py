"""C14 - triangulation covers the polygon exactly.

Stages
  polygons  TLC (PolygonGen) enumerates every simple polygon with <= V vertices on a small integer grid
            (colinear runs included); the harness hands each to model2d.Triangulate and
            model3d.TriangulateFace (three lattice planes, one tilted) in every rotation and both
            orientations, and once as a one-ring mesh to TriangulateMesh / ProfileMesh.
  regions   TLC (RegionGen) enumerates outer rings with holes and an island inside a hole; the
            harness orients the rings as documented and runs TriangulateMesh and ProfileMesh.
  shapes    hand-made rectilinear spirals / U / comb with long concave runs, every rotation and orientation.
  sweep-ties  comb / Sigma outlines and regions with holes given in the frame in which TriangulateMesh sweeps
            (the harness rotates them by +0.5037616150469717 rad): prong tips, a pair of notches or of extreme
            hole vertices sit on one sweep line and are nudged off it by 1e-12 .. 1e-9 (both signs, seeded);
            TriangulateMesh and ProfileMesh, judged on the integer skeleton (the nudges are far below the
            margin of every strict predicate there).
  large     simple integer polygons with 63 .. 130 vertices (flowers, stars, sawtooth combs; seeded) in both
            vertex orders and from two starting vertices through Triangulate, TriangulateFace and ReadOFF,
            and once as a clockwise ring through TriangulateMesh.
  V         TLC (PolygonJudge) evaluates the definition of a valid triangulation in exact integer
            arithmetic: input vertices only, inside, pairwise interior-disjoint, exact area,
            documented orientation, termination; extrusions closed / oriented / manifold with
            6V = 3 * doubled area * height.
"""
import json
import os

import vlib
from vlib import Infra

PGEN = "SPECIFICATION Spec\nCONSTANTS\n  GX = %d\n  GY = %d\n  MaxV = %d\nINVARIANTS Emit\nCHECK_DEADLOCK FALSE\n"
RGEN = "SPECIFICATION Spec\nCONSTANTS\n  MaxHoles = %d\nCHECK_DEADLOCK FALSE\n"
JUDGE = "SPECIFICATION Spec\nCHECK_DEADLOCK FALSE\n"
CLAUSES = {"terminates", "verts", "inside", "overlap", "area", "clockwise", "extrude", "invalid-input"}


# hand-made rectilinear polygons with long concave runs (spiral corridors, a U, a comb): the turning angle
# accumulated from some start vertices exceeds half a turn in the "wrong" direction before it comes back
SHAPES = [
    [[0, 0], [5, 0], [5, 5], [0, 5], [0, 2], [3, 2], [3, 3], [1, 3], [1, 4], [4, 4], [4, 1], [0, 1]],
    [[0, 0], [5, 0], [5, 4], [3, 4], [3, 2], [2, 2], [2, 4], [0, 4]],
    [[0, 0], [7, 0], [7, 3], [6, 3], [6, 1], [5, 1], [5, 3], [4, 3], [4, 1], [3, 1], [3, 3], [2, 3], [2, 1], [1, 1], [1, 3], [0, 3]],
    [[0, 0], [7, 0], [7, 7], [0, 7], [0, 2], [5, 2], [5, 5], [2, 5], [2, 4], [4, 4], [4, 3], [1, 3], [1, 6], [6, 6], [6, 1], [0, 1]],
]


SWEEP = 0.5037616150469717  # the fixed rotation of model2d's misalignMesh (sweep frame = input rotated by -SWEEP)


def _nudges(rnd, g, draw):
    """g pairwise different offsets of the sweep-frame x coordinate, |d| in 1e-12 .. 1e-9, both signs"""
    while True:
        if draw == 0:
            ds = [(1 if i % 2 else -1) * 1e-9 * (1 - 0.07 * i) for i in range(g)]
        elif draw == 1:
            ds = [(-1 if i % 2 else 1) * 1e-11 * (1 + 0.3 * i) for i in range(g)]
        else:
            ds = [rnd.choice((-1, 1)) * 10 ** rnd.uniform(-12, -9) for _ in range(g)]
        if draw == 3:
            ds[rnd.randrange(g)] = 0.0      # one vertex stays on the lattice line
        if all(abs(a - b) >= 1e-12 and abs(a - b) < 4e-9 for i, a in enumerate(ds) for b in ds[:i]):
            return ds


def tie_cases(seed, draws):
    """Regions (comb / Sigma outlines, holes) given in the sweep frame of TriangulateMesh: every vertex has its own
    integer x, except the members of one or two tie groups (prong tips; a pair of notches between prongs and/or extreme
    vertices of holes), which sit on a common lattice line and are nudged off it by 1e-12 .. 1e-9.  Groups of
    three and more split/merge vertices (notches, holes) on one line are three mutually visible vertices colinear to
    within 1e-10 rad: the diagonals between them are nearly parallel."""
    import itertools
    import random
    rnd = random.Random(1000 + seed)

    def comb(k, tie_tips, notch_pair, holes, hole_pair):
        ring, groups = [[30, -4], [29, 4 * k + 2]], {}
        for i in range(k - 1, -1, -1):
            ring.append([0 if tie_tips else i, 4 * i + 1])
            if tie_tips:
                groups.setdefault("t", []).append((0, len(ring) - 1))
            if i > 0:
                ring.append([8 if i in notch_pair else 9 + i, 4 * i - 1])
                if i in notch_pair:
                    groups.setdefault("n", []).append((0, len(ring) - 1))
        rings = [ring]
        for j in holes:
            # a triangular hole inside prong j; its extreme vertex is on the line of the tied notches
            rings.append([[8 if j in hole_pair else 7 - j, 4 * j + 1], [15 + 2 * j, 4 * j], [16 + 2 * j, 4 * j + 2]])
            if j in hole_pair:
                groups.setdefault("n", []).append((len(rings) - 1, 0))
        return rings, list(groups.values())

    def holed(m, pair):
        rings, grp = [[[-3, -2], [40, -1], [39, 4 * m + 1], [-2, 4 * m]]], []
        for j in range(m):
            rings.append([[5 if j in pair else 4 - j, 4 * j + 1], [8 + 2 * j, 4 * j], [9 + 2 * j, 4 * j + 2]])
            if j in pair:
                grp.append((j + 1, 0))
        return rings, [grp]

    shapes = []
    for k in (2, 3, 4, 5):
        shapes.append(("comb%d-tips" % k, lambda d, k=k: comb(k, True, (), (), ())))
    for k in (3, 4, 5):
        pairs = list(itertools.combinations(range(1, k), 2))
        shapes.append(("comb%d-notches" % k, lambda d, k=k, pairs=pairs: comb(k, False, pairs[d % len(pairs)], (), ())))
        shapes.append(("comb%d-both" % k, lambda d, k=k, pairs=pairs: comb(k, True, pairs[(d + 1) % len(pairs)], (), ())))
    for k in (2, 3, 4):
        # one notch and the hole in a prong next to it / two holes / tips and two holes
        shapes.append(("comb%d-notch-hole" % k, lambda d, k=k: comb(k, False, (1 + d % (k - 1),), (d % k,), (d % k,))))
        shapes.append(("comb%d-holes" % k, lambda d, k=k: comb(k, False, (), range(k), (d % k, (d + 1) % k))))
        shapes.append(("comb%d-tips-holes" % k, lambda d, k=k: comb(k, True, (), (0, k - 1), (0, k - 1))))
    for m in (2, 3, 4):
        pairs = list(itertools.combinations(range(m), 2))
        shapes.append(("holes%d" % m, lambda d, m=m, pairs=pairs: holed(m, pairs[d % len(pairs)])))
    # three and more split/merge vertices on one sweep line: the diagonals between them leave a vertex in directions
    # that differ by about 1e-10 rad
    for m in (3, 4):
        shapes.append(("holes%d-all" % m, lambda d, m=m: holed(m, tuple(range(m)))))
    for k in (4, 5):
        shapes.append(("comb%d-notches-all" % k, lambda d, k=k: comb(k, False, tuple(range(1, k)), (), ())))
    shapes.append(("comb3-holes-all", lambda d: comb(3, False, (), range(3), (0, 1, 2))))
    shapes.append(("comb3-notches-holes-all", lambda d: comb(3, False, (1, 2), range(3), (0, 1, 2))))
    # the Sigma of two prongs (doubled coordinates)
    shapes.append(("sigma", lambda d: ([[[0, 6], [10, 8], [11, 0], [0, 2], [6, 4]]], [[(0, 0), (0, 3)]])))
    cases = []
    for name, make in shapes:
        for mirror in (False, True):
            for d in range(draws):
                rings, groups = make(d)
                if not _region_ok(rings):
                    raise Infra("generator: region %s is not valid" % name)
                dx = [[0.0] * len(r) for r in rings]
                for g in groups:
                    for (k, i), v in zip(g, _nudges(rnd, len(g), d)):
                        dx[k][i] = v
                rr = [[[-x, y] if mirror else [x, y] for x, y in r] for r in rings]
                dd = [[-v for v in r] for r in dx] if mirror else dx
                cases.append({"name": "%s%s-d%d" % (name, "-mirror" if mirror else "", d), "rings": rr, "dx": dd,
                              "exp": 0})
    return cases


def _region_ok(rings):
    """exact: every ring simple, rings pairwise disjoint, every further ring strictly inside the first"""
    def cr(o, a, b):
        return (a[0] - o[0]) * (b[1] - o[1]) - (a[1] - o[1]) * (b[0] - o[0])

    def sg(x):
        return (x > 0) - (x < 0)

    def onseg(a, b, c):
        return cr(a, b, c) == 0 and min(a[0], b[0]) <= c[0] <= max(a[0], b[0]) and min(a[1], b[1]) <= c[1] <= max(a[1], b[1])

    def meet(a, b, c, d):
        return (sg(cr(a, b, c)) * sg(cr(a, b, d)) < 0 and sg(cr(c, d, a)) * sg(cr(c, d, b)) < 0) or \
            onseg(a, b, c) or onseg(a, b, d) or onseg(c, d, a) or onseg(c, d, b)

    def wind(r, p):
        w = 0
        for i in range(len(r)):
            a, b = r[i], r[(i + 1) % len(r)]
            if a[1] <= p[1]:
                if b[1] > p[1] and cr(a, b, p) > 0:
                    w += 1
            elif b[1] <= p[1] and cr(a, b, p) < 0:
                w -= 1
        return w
    if not all(_simple(r) for r in rings):
        return False
    for x, r in enumerate(rings):
        for q in rings[:x]:
            for i in range(len(r)):
                for j in range(len(q)):
                    if meet(r[i], r[(i + 1) % len(r)], q[j], q[(j + 1) % len(q)]):
                        return False
        if x > 0 and not all(wind(rings[0], p) != 0 for p in r):
            return False
        if any(wind(r, p) != 0 for q in rings[1:x] for p in q) or any(wind(q, p) != 0 for q in rings[1:x] for p in r):
            return False
    return True


def _simple(ring):
    """exact: no colinear consecutive triple, no two non-adjacent edges with a common point"""
    n = len(ring)

    def cr(o, a, b):
        return (a[0] - o[0]) * (b[1] - o[1]) - (a[1] - o[1]) * (b[0] - o[0])

    def sg(x):
        return (x > 0) - (x < 0)

    def onseg(a, b, c):
        return cr(a, b, c) == 0 and min(a[0], b[0]) <= c[0] <= max(a[0], b[0]) and min(a[1], b[1]) <= c[1] <= max(a[1], b[1])
    if len({tuple(p) for p in ring}) != n:
        return False
    for i in range(n):
        if cr(ring[i - 1], ring[i], ring[(i + 1) % n]) == 0:
            return False
    for i in range(n):
        a, b = ring[i], ring[(i + 1) % n]
        for j in range(i + 2, n):
            if i == 0 and j == n - 1:
                continue
            c, d = ring[j], ring[(j + 1) % n]
            if sg(cr(a, b, c)) * sg(cr(a, b, d)) < 0 and sg(cr(c, d, a)) * sg(cr(c, d, b)) < 0:
                return False
            if onseg(a, b, c) or onseg(a, b, d) or onseg(c, d, a) or onseg(c, d, b):
                return False
    return True


def big_polygons(seed, sizes_flower, teeth):
    """Simple integer polygons with 60 .. 130 vertices, none colinear with its neighbours: flowers (a star-shaped
    outline with many reflex vertices), stars (alternating radii) and sawtooth combs."""
    import math
    import random
    rnd = random.Random(2000 + seed)
    out = []
    for n in sizes_flower:
        for kind in ("flower", "star"):
            for _try in range(50):
                petals, rad, ph = rnd.choice((5, 7, 9)), rnd.randrange(150, 260), rnd.uniform(0, 6.28)
                ring = []
                for i in range(n):
                    th = 2 * math.pi * i / n
                    if kind == "flower":
                        r = rad * (1 + 0.45 * math.cos(petals * th + ph))
                    else:
                        r = rad * (1.0 if i % 2 == 0 else 0.55 + 0.1 * rnd.random())
                    ring.append([int(round(r * math.cos(th + ph))) + 300, int(round(r * math.sin(th + ph))) + 300])
                if kind == "star" and n % 2:
                    ring[-1] = [(ring[-2][0] + ring[0][0]) // 2 + 1, (ring[-2][1] + ring[0][1]) // 2 + 2]
                if _simple(ring):
                    out.append(ring)
                    break
            else:
                raise Infra("no simple %s with %d vertices" % (kind, n))
    for t in teeth:
        off = rnd.randrange(0, 3)
        ring = [[0, -10], [10 * t, -13 - off]]
        for i in range(t - 1, -1, -1):
            ring.append([10 * i + 7, 20 + (i * 3 + off) % 7])
            ring.append([10 * i + 3, (i * 5 + off) % 4])
        if not _simple(ring):
            raise Infra("comb with %d teeth is not simple" % t)
        out.append(ring)
    return out


def stage(ctx, name, gen_module, gen_cfg, mode, variants, sample=None, explicit=None):
    if explicit is not None:
        cases = [json.dumps(c) for c in explicit]
    else:
        g = ctx.tlc("G-" + name, "tri/" + gen_module, gen_cfg, workers=16, timeout=1800, tags=("CASE",), heap="8g")
        ctx.require_clean(g, "G-" + name)
        ctx.add_tlc_counts(g)
        cases = sorted({c[1] for c in g.tagged("CASE")})
    if not cases:
        raise Infra("no cases for " + name)
    total = len(cases)
    if sample and len(cases) > sample:
        import random
        cases = random.Random(ctx.seed).sample(cases, sample)
    cpath = os.path.join(ctx.dir, "cases-%s.ndjson" % name)
    with open(cpath, "w") as fh:
        for c in cases:
            fh.write(c + "\n")
    rpath = os.path.join(ctx.dir, "records-%s.ndjson" % name)
    spath = os.path.join(ctx.dir, "stats-%s.json" % name)
    ctx.drv(["c14-tri", "in=" + cpath, "out=" + rpath, "stats=" + spath, "mode=" + mode, "variants=%d" % variants,
             "seed=%d" % ctx.seed], timeout=1500)
    stats = json.load(open(spath))
    j = ctx.tlc("J-" + name, "tri/PolygonJudge", JUDGE, data={"records.ndjson": rpath}, workers=16, timeout=3000,
                heap="12g")
    ctx.require_clean(j, "J-" + name)
    ctx.add_tlc_counts(j)
    if j.distinct != 2 * stats["records"]:
        raise Infra("judge examined %d states for %d records" % (j.distinct, stats["records"]))
    rejects = [x for x in j.tagged("REJECT") if x[3] in CLAUSES]
    if rejects:
        recs = {r["id"]: r for r in vlib.read_ndjson(rpath)}
        for (_, rid, _l, clause) in rejects:
            rec = recs[rid]
            if clause == "invalid-input":
                raise Infra("generator produced an invalid region: %s" % rec["rings"])
            site = rec["site"].split("[")[0].split("@")[0]
            key = "%s:%s" % (site, clause)
            ctx.violation(key, "%s %s rings=%s -> %s%s: clause %s" % (
                rec["site"], rec["variant"], rec["rings"], rec["tris"][:8],
                (" " + rec["outcome"] + " " + rec["panic"][:80]) if rec["outcome"] != "ok" else "", clause),
                {"spec": "tri/PolygonJudge.tla", "clause": clause, "record": rec})
    ctx.counts["traces_validated_against_impl"] += stats["records"]
    ctx.counts["evaluations"] += stats["records"]
    ctx.counts["distinct_nontrivial"] += stats["records"]
    ctx.stage(name, kind="R+V", generated=total, used=len(cases), records=stats["records"], rejected=len(rejects),
              sites={k[5:]: v for k, v in stats.items() if k.startswith("site:")},
              outcomes={k[8:]: v for k, v in stats.items() if k.startswith("outcome:")})
    if len(ctx.samples) < 3:
        ctx.samples.append({name: json.loads(cases[len(cases) // 2])})


def run(ctx):
    quick = ctx.tier == "quick"
    ctx.rule = ("every simple polygon with <= 6 vertices on a 3x3 grid in every rotation and both orientations (quick) plus a "
                "seeded sample of the 4x4 / <= 5 polygons; thorough: every 4x4 / <= 6 polygon in 4 seeded variants; every "
                "region outer ring x <= 1 (2) holes x island; comb / hole regions with vertices nearly aligned along the sweep line; "
                "seeded polygons with 63 .. 130 vertices in both vertex orders; non-trivial = every record (all inputs are valid polygons)")
    ctx.assumptions = ["integer vertex coordinates: all predicates are exact integer arithmetic in TLC",
                       "TriangulateFace rebuilds coordinates from a 2-D basis: outputs are matched to input vertices with 1e-9",
                       "degenerate (zero-area) output triangles are accepted: they have no interior"]
    ctx.build_harness()
    if quick:
        stage(ctx, "poly33", "PolygonGen", PGEN % (3, 3, 6), "polygon", 0)
        stage(ctx, "poly44", "PolygonGen", PGEN % (4, 4, 5), "polygon", 2, sample=1500)
        stage(ctx, "regions", "RegionGen", RGEN % 1, "region", 0)
        stage(ctx, "shapes", None, None, "polygon", 2, explicit=SHAPES)
        stage(ctx, "sweep-ties", None, None, "placed", 0, explicit=tie_cases(ctx.seed, 3))
        stage(ctx, "large", None, None, "bigpolygon", 0, explicit=big_polygons(ctx.seed, (64, 100), (31, 45)))
    else:
        stage(ctx, "shapes", None, None, "polygon", 6, explicit=SHAPES)
        stage(ctx, "sweep-ties", None, None, "placed", 0, explicit=tie_cases(ctx.seed, 4) + tie_cases(ctx.seed + 50, 4)[2::4])
        stage(ctx, "large", None, None, "bigpolygon", 0,
              explicit=big_polygons(ctx.seed, (63, 64, 65, 90, 130), (31, 32, 50, 64)))
        stage(ctx, "poly33", "PolygonGen", PGEN % (3, 3, 7), "polygon", 0)
        stage(ctx, "poly44", "PolygonGen", PGEN % (4, 4, 6), "polygon", 4)
        stage(ctx, "poly53", "PolygonGen", PGEN % (5, 3, 6), "polygon", 2, sample=8000)
        stage(ctx, "regions", "RegionGen", RGEN % 2, "region", 0)
    # thin spikes with sides that bend by 1e-1 .. 1e-7 rad (aggregates computed by the harness, ThinJudge)
    import solids
    solids.judge_stage(ctx, "thin-spikes", ["c14-thin", "quick=%d" % (1 if quick else 0)],
                       {"terminates", "count", "verts", "clockwise", "area"}, judge="tri/ThinJudge",
                       keyfn=lambda rec, clause: "%s:thin:%s" % (rec["site"], clause))
    ctx.extra["exhaustive"] = True
