"""C14 - triangulation covers the polygon exactly.

Stages
  polygons  TLC (PolygonGen) enumerates every simple polygon with <= V vertices on a small integer grid
            (colinear runs included); the harness hands each to model2d.Triangulate and
            model3d.TriangulateFace (three lattice planes, one tilted) in every rotation and both
            orientations, and once as a one-ring mesh to TriangulateMesh / ProfileMesh.
  regions   TLC (RegionGen) enumerates outer rings with holes and an island inside a hole; the
            harness orients the rings as documented and runs TriangulateMesh and ProfileMesh.
  V         TLC (PolygonJudge) evaluates the definition of a valid triangulation in exact integer
            arithmetic: input vertices only, inside, pairwise interior-disjoint, exact area,
            documented orientation, termination; extrusions closed / oriented / manifold with
            6V = 3 * doubled area * height.
"""
import json
import os

import vlib
from vlib import Infra

PGEN = "SPECIFICATION Spec\nCONSTANTS\n  GX = %d\n  GY = %d\n  MaxV = %d\nINVARIANTS Emit\nCHECK_DEADLOCK FALSE\n"
RGEN = "SPECIFICATION Spec\nCONSTANTS\n  MaxHoles = %d\nCHECK_DEADLOCK FALSE\n"
JUDGE = "SPECIFICATION Spec\nCHECK_DEADLOCK FALSE\n"
CLAUSES = {"terminates", "verts", "inside", "overlap", "area", "clockwise", "extrude", "invalid-input"}


# hand-made rectilinear polygons with long concave runs (spiral corridors, a U, a comb): the turning angle
# accumulated from some start vertices exceeds half a turn in the "wrong" direction before it comes back
SHAPES = [
    [[0, 0], [5, 0], [5, 5], [0, 5], [0, 2], [3, 2], [3, 3], [1, 3], [1, 4], [4, 4], [4, 1], [0, 1]],
    [[0, 0], [5, 0], [5, 4], [3, 4], [3, 2], [2, 2], [2, 4], [0, 4]],
    [[0, 0], [7, 0], [7, 3], [6, 3], [6, 1], [5, 1], [5, 3], [4, 3], [4, 1], [3, 1], [3, 3], [2, 3], [2, 1], [1, 1], [1, 3], [0, 3]],
    [[0, 0], [7, 0], [7, 7], [0, 7], [0, 2], [5, 2], [5, 5], [2, 5], [2, 4], [4, 4], [4, 3], [1, 3], [1, 6], [6, 6], [6, 1], [0, 1]],
]


def stage(ctx, name, gen_module, gen_cfg, mode, variants, sample=None, explicit=None):
    if explicit is not None:
        cases = [json.dumps(c) for c in explicit]
    else:
        g = ctx.tlc("G-" + name, "tri/" + gen_module, gen_cfg, workers=16, timeout=1800, tags=("CASE",), heap="8g")
        ctx.require_clean(g, "G-" + name)
        ctx.add_tlc_counts(g)
        cases = sorted({c[1] for c in g.tagged("CASE")})
    if not cases:
        raise Infra("no cases for " + name)
    total = len(cases)
    if sample and len(cases) > sample:
        import random
        cases = random.Random(ctx.seed).sample(cases, sample)
    cpath = os.path.join(ctx.dir, "cases-%s.ndjson" % name)
    with open(cpath, "w") as fh:
        for c in cases:
            fh.write(c + "\n")
    rpath = os.path.join(ctx.dir, "records-%s.ndjson" % name)
    spath = os.path.join(ctx.dir, "stats-%s.json" % name)
    ctx.drv(["c14-tri", "in=" + cpath, "out=" + rpath, "stats=" + spath, "mode=" + mode, "variants=%d" % variants],
            timeout=1500)
    stats = json.load(open(spath))
    j = ctx.tlc("J-" + name, "tri/PolygonJudge", JUDGE, data={"records.ndjson": rpath}, workers=16, timeout=3000,
                heap="12g")
    ctx.require_clean(j, "J-" + name)
    ctx.add_tlc_counts(j)
    if j.distinct != 2 * stats["records"]:
        raise Infra("judge examined %d states for %d records" % (j.distinct, stats["records"]))
    rejects = [x for x in j.tagged("REJECT") if x[3] in CLAUSES]
    if rejects:
        recs = {r["id"]: r for r in vlib.read_ndjson(rpath)}
        for (_, rid, _l, clause) in rejects:
            rec = recs[rid]
            if clause == "invalid-input":
                raise Infra("generator produced an invalid region: %s" % rec["rings"])
            site = rec["site"].split("[")[0].split("@")[0]
            key = "%s:%s" % (site, clause)
            ctx.violation(key, "%s %s rings=%s -> %s%s: clause %s" % (
                rec["site"], rec["variant"], rec["rings"], rec["tris"][:8],
                (" " + rec["outcome"] + " " + rec["panic"][:80]) if rec["outcome"] != "ok" else "", clause),
                {"spec": "tri/PolygonJudge.tla", "clause": clause, "record": rec})
    ctx.counts["traces_validated_against_impl"] += stats["records"]
    ctx.counts["evaluations"] += stats["records"]
    ctx.counts["distinct_nontrivial"] += stats["records"]
    ctx.stage(name, kind="R+V", generated=total, used=len(cases), records=stats["records"], rejected=len(rejects),
              sites={k[5:]: v for k, v in stats.items() if k.startswith("site:")},
              outcomes={k[8:]: v for k, v in stats.items() if k.startswith("outcome:")})
    if len(ctx.samples) < 3:
        ctx.samples.append({name: json.loads(cases[len(cases) // 2])})


def run(ctx):
    quick = ctx.tier == "quick"
    ctx.rule = ("every simple polygon with <= 6 vertices on a 3x3 grid in every rotation and both orientations (quick) plus a "
                "seeded sample of the 4x4 / <= 5 polygons; thorough: every 4x4 / <= 6 polygon in 4 seeded variants; every "
                "region outer ring x <= 1 (2) holes x island; non-trivial = every record (all inputs are valid polygons)")
    ctx.assumptions = ["integer vertex coordinates: all predicates are exact integer arithmetic in TLC",
                       "TriangulateFace rebuilds coordinates from a 2-D basis: outputs are matched to input vertices with 1e-9",
                       "degenerate (zero-area) output triangles are accepted: they have no interior"]
    ctx.build_harness()
    if quick:
        stage(ctx, "poly33", "PolygonGen", PGEN % (3, 3, 6), "polygon", 0)
        stage(ctx, "poly44", "PolygonGen", PGEN % (4, 4, 5), "polygon", 2, sample=1500)
        stage(ctx, "regions", "RegionGen", RGEN % 1, "region", 0)
        stage(ctx, "shapes", None, None, "polygon", 2, explicit=SHAPES)
    else:
        stage(ctx, "shapes", None, None, "polygon", 6, explicit=SHAPES)
        stage(ctx, "poly33", "PolygonGen", PGEN % (3, 3, 7), "polygon", 0)
        stage(ctx, "poly44", "PolygonGen", PGEN % (4, 4, 6), "polygon", 4)
        stage(ctx, "poly53", "PolygonGen", PGEN % (5, 3, 6), "polygon", 2, sample=8000)
        stage(ctx, "regions", "RegionGen", RGEN % 2, "region", 0)
    ctx.extra["exhaustive"] = True
