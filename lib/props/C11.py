"""C11 - mesh diagnostics, repair and nesting agree with their definitions.

Stages (each: TLC ComplexGen enumerates -> harness realises with real meshes -> TLC DiagJudge compares
with the definitions in Diagnostics.tla)
  diag     every set of <= F oriented triangles over 4 (5) vertex names: NeedsRepair, SingularVertices,
           InconsistentEdges, Orientable; FaceOrientations on those that are orientable manifolds
  voxels   every non-empty subset of a 2x2x2 block of unit voxels, dual contouring on the half-unit grid with
           Repair and Clip (the public route to ptrCoord.Clusters): the diagnostics of the result are clean
  diag2    every set of <= F directed segments over 4 names: model2d Manifold, InconsistentVertices
  flip     every subset of faces of a tetrahedron / octahedron / box flipped: RepairNormals restores
           the outward orientation, RepairNormalsMajority restores minority flips; vertex-jittered
           copies are merged back by Repair
  forest   every forest with <= N nodes as nested box shells in seeded corner placements:
           MeshToHierarchy (3-D and 2-D) returns that forest, loses / duplicates no face and
           classifies probe points by the even-odd rule; SelfIntersections is 0 on the nested shells and
           positive once a shifted copy of a root shell is added
"""
import json
import os

import vlib
from vlib import Infra

GEN = "SPECIFICATION Spec\nCONSTANTS\n  Kind = \"%s\"\n  NV = %d\n  MaxF = %d\n  MaxN = %d\nCHECK_DEADLOCK FALSE\n"
JUDGE = "SPECIFICATION Spec\nCHECK_DEADLOCK FALSE\n"
CLAUSES = {"panic", "needs", "singular", "inconsistent", "orientable", "manifold2", "inconsistent2", "repair", "normals",
           "nesting", "evenodd", "orientations", "dcrepair", "selfint", "clusters"}


def stage(ctx, name, kind, nv, maxf, maxn, extra_args=(), sample=None):
    g = ctx.tlc("G-" + name, "mesh/ComplexGen", GEN % (kind, nv, maxf, maxn), workers=8, timeout=900, tags=("CASE",))
    ctx.require_clean(g, "G-" + name)
    ctx.add_tlc_counts(g)
    cases = sorted({c[1] for c in g.tagged("CASE")})
    total = len(cases)
    if not cases:
        raise Infra("no cases for " + name)
    if sample and len(cases) > sample:
        import random
        cases = random.Random(ctx.seed).sample(cases, sample)
    cpath = os.path.join(ctx.dir, "cases-%s.ndjson" % name)
    with open(cpath, "w") as fh:
        for c in cases:
            fh.write(c + "\n")
    rpath = os.path.join(ctx.dir, "records-%s.ndjson" % name)
    spath = os.path.join(ctx.dir, "stats-%s.json" % name)
    ctx.drv(["c11-diag", "in=" + cpath, "out=" + rpath, "stats=" + spath, "kind=" + ("diag" if kind == "pairs" else kind),
             "seed=%d" % ctx.seed]
            + list(extra_args), timeout=1500)
    stats = json.load(open(spath))
    if kind == "voxels" and stats.get("nonmanifold-before-repair", 0) == 0:
        raise Infra("no voxel set is non-manifold before the repair: the dcrepair clause would be vacuous")
    j = ctx.tlc("J-" + name, "mesh/DiagJudge", JUDGE, data={"records.ndjson": rpath}, workers=16, timeout=3000, heap="10g")
    ctx.require_clean(j, "J-" + name)
    ctx.add_tlc_counts(j)
    if j.distinct != 2 * stats["records"]:
        raise Infra("judge examined %d states for %d records" % (j.distinct, stats["records"]))
    rejects = [x for x in j.tagged("REJECT") if x[3] in CLAUSES]
    if rejects:
        recs = {r["id"]: r for r in vlib.read_ndjson(rpath)}
        for (_, rid, _l, clause) in rejects:
            rec = recs[rid]
            shape = ""
            if rec["kind"] == "diag" and clause == "singular":
                # two faces on the same three vertices ("pillow") vs anything else
                fs = [tuple(sorted(f)) for f in rec["F"]]
                shape = ":pillow" if len(set(fs)) < len(fs) else ":other"
            key = "%s:%s%s" % (rec["site"], clause, shape)
            small = {k: v for k, v in rec.items() if k != "probes"}
            ctx.violation(key, "%s: clause %s: %s" % (rec["site"], clause, json.dumps(small)[:400]),
                          {"spec": "mesh/DiagJudge.tla", "clause": clause, "record": rec})
    ctx.counts["traces_validated_against_impl"] += stats["records"]
    ctx.counts["evaluations"] += stats["records"]
    ctx.counts["distinct_nontrivial"] += stats["records"]
    ctx.stage(name, kind="R+V", generated=total, used=len(cases), records=stats["records"], rejected=len(rejects))
    if len(ctx.samples) < 4:
        ctx.samples.append({name: json.loads(cases[len(cases) // 2])})


def run(ctx):
    quick = ctx.tier == "quick"
    ctx.rule = ("every set of <= 4 (6) oriented triangles over 4 names, <= 3 (4) over 5 names; every set of <= 4 (5) directed "
                "segments over 4 names; every flipped subset of 4 / 8 / 12 faces (seeded sample for the larger ones); every "
                "forest with <= 4 (5) nodes x 2 seeded corner placements + 2-D; non-trivial = every record")
    ctx.assumptions = ["vertex names are realised with fixed generic coordinates (diagnostics) or lattice boxes (hierarchy)",
                       "Repair: jitter < epsilon/4 and vertex gaps > 100 epsilon, so the intended merge is unambiguous",
                       "RepairNormals: convex closed manifolds only (the even-odd test is exact there)"]
    ctx.build_harness()
    stage(ctx, "diag4", "diag", 4, 4 if quick else 8, 1)
    stage(ctx, "diag5", "diag", 5, 3 if quick else 4, 1, sample=None if quick else 12000)
    # one or two faces over 6 names: the only complexes here with two groups of connected faces
    stage(ctx, "diag6", "pairs", 6, 2, 1)
    stage(ctx, "diag2", "diag2", 4, 4 if quick else 5, 1)
    stage(ctx, "flip", "flip", 1, 12, 1, sample=600 if quick else 4096)
    stage(ctx, "voxels", "voxels", 1, 8, 1)
    stage(ctx, "forest", "forest", 1, 1, 4 if quick else 5, extra_args=["reps=%d" % (2 if quick else 4)])
    ctx.extra["exhaustive"] = True
