"""C07 - colliders report consistent ray and ball collisions.

Stage "voxel" (harness c07-voxel, judge spec/geom/VoxelJudge.tla): mesh / BVH / grouped / nested colliders on voxel
worlds; on extrusions (a pixel set times a z range, plan items extall / ext) the same oracle judges
ProfileCollider(MeshToCollider), ProfileCollider(JoinedCollider) over the 2-D outline of the pixel set (clause "scan" is
vacuous for them: they have no triangles to scan) and ProfileSolid(ColliderSolid), ProfileSolid(BitmapToSolid) (clause
"contains").  Stage "prims": see c07_prims."""
import solids
from vlib import Infra


def run(ctx):
    quick = ctx.tier == "quick"
    ctx.rule = ("voxel worlds: every non-empty subset of a 2x2x2 grid and seeded subsets of larger grids, as mesh collider, "
                "area-density BVH, grouped-triangle collider and randomly nested joined colliders, extrusions of pixel sets as "
                "profile colliders / solids; seeded rays with "
                "half-integer origins and integer directions scaled by 2^-e (e up to 30), balls of radius m/2, segment / "
                "box / triangle queries; non-trivial = every record (non-empty world)")
    ctx.assumptions = ["rays not in general position (VoxelSurface!GP) are only compared with the literal linear scan",
                       "ball tangency (D2 = r^2) is not decided", "curved primitives: see level_note",
                       "profile colliders: rays whose xy-shadow meets an outline vertex inside the z range touch a vertical edge (not general position) and are not asked"]
    ctx.build_harness()
    plan = "all:2,2,2;rand:3,3,2:%d;rand:4,3,3:%d" % ((25, 6) if quick else (400, 100))
    plan += ";extall:2,2,2;ext:3,3,2:%d;ext:4,3,3:%d" % ((25, 6) if quick else (300, 80))
    solids.judge_stage(ctx, "voxel", ["c07-voxel", "kinds=collider", "plan=" + plan, "rays=%d" % (40 if quick else 80),
                                      "spheres=%d" % (24 if quick else 48)],
                       {"panic", "scan", "count", "hits", "first", "parity", "sphere", "segment", "contains", "concurrent"},
                       judge="geom/VoxelJudge", timeout=3000)
    import c07_prims
    c07_prims.run(ctx)
    # triangle against triangle on integer corners (unrelated, one corner in common, an edge in common) against exact
    # orientation determinants
    st = solids.judge_stage(ctx, "tripairs", ["c07-tripairs", "n=%d" % (800 if quick else 8000)],
                            {"panic", "tri-hit", "tri-miss", "tri-one"}, judge="geom/TriPairJudge",
                            keyfn=lambda rec, clause: "%s:%s:common=%d" % (rec["site"], clause, rec["common"]))
    if st.get("nonempty", 0) < 20:
        raise Infra("tripairs: only %d pairs were reported as intersecting" % st.get("nonempty", 0))
    # 2-D accelerated colliders (mesh / BVH / grouped / nested) on pixel worlds and integer polygons: exact crossing
    # counts of rays in general position, ColliderContains = even-odd parity, first hit consistent with the count
    import c08_accel2
    c08_accel2.run(ctx, clauses=c08_accel2.C07_CLAUSES, kinds="collider")
    # transformed colliders: every chain of transform atoms around a box collider - ray hits at the images of the
    # original hits with the same parameter and unit outward normals, ball queries with the pulled-back radius
    from props import C05
    C05.chains_stage(ctx, clauses={"panic", "ray", "ball"}, label="transformed-colliders")
