"""C10 - mesh processing keeps closed oriented manifolds closed, oriented, manifold.

Stages
  E     MeshSurgery.tla: abstract complexes grown from a tetrahedron / octahedron by face and edge
        splits, with edge flips and edge collapses under the guards the code applies; TLC checks that
        closed + manifold + oriented + Euler characteristic are invariant (all behaviours of bounded depth).
  R/V   TLC (OpsGen) enumerates every chain of <= 2 operations out of 25 (3-D) / 10 (2-D) on every mesh
        of a palette (boxes, subdivided boxes with coplanar runs, voxel shapes, icosphere, torus, two
        components, thin box, octahedron; rectangles with colinear runs, pixel outlines with a hole,
        polygons); the harness runs the real operations with a deadline and records every step as an
        abstract complex; SurgeryJudge checks manifoldness, Euler characteristic and component count,
        "no new vertices", keep-filters, exact area / volume and the published placement rules.
"""
import json
import os

import vlib
from vlib import Infra

SURG = """SPECIFICATION Spec
CONSTANTS
  MaxV = %d
  MaxDepth = %d
  Guard = "%s"
  Seed = "%s"
  FlipGuard = TRUE
INVARIANTS Inv
CHECK_DEADLOCK FALSE
"""
GEN = "SPECIFICATION Spec\nCONSTANTS\n  MaxLen = %d\n  Dim = %d\nCHECK_DEADLOCK FALSE\n"
JUDGE = "SPECIFICATION Spec\nCHECK_DEADLOCK FALSE\n"
CLAUSES = {"terminates", "manifold", "simple", "euler", "novert", "keep", "exact", "rule"}
# the guard of canEliminateSegment as it is in the code now: "code" = duplicate-face test only,
# "link" = duplicate-face test and link condition
CODE_GUARD = "link"


def surgery_stage(ctx):
    quick = ctx.tier == "quick"
    lead = None
    for seed, maxv, depth in ([("tetra", 7, 5)] if quick else [("tetra", 8, 6), ("octa", 8, 3)]):
        e = ctx.tlc("E-" + seed, "mesh/MeshSurgery", SURG % (maxv, depth, CODE_GUARD, seed), workers=16, timeout=2400,
                    heap="10g")
        if e.invariant:
            lead = "MeshSurgery(%s): %s" % (seed, e.invariant)
        else:
            ctx.require_clean(e, "E-" + seed)
        ctx.add_tlc_counts(e)
        ctx.stage("surgery-" + seed, kind="E", guard=CODE_GUARD, maxv=maxv, depth=depth, states=e.distinct,
                  refuted=bool(e.invariant))
    return lead


def ops_stage(ctx, dim, maxlen, sample=None):
    g = ctx.tlc("G%d" % dim, "mesh/OpsGen", GEN % (maxlen, dim), workers=8, timeout=900, tags=("CASE",))
    ctx.require_clean(g, "G%d" % dim)
    ctx.add_tlc_counts(g)
    cases = sorted({c[1] for c in g.tagged("CASE")})
    total = len(cases)
    if sample and len(cases) > sample:
        import random
        singles = [c for c in cases if len(json.loads(c)["ops"]) == 1]
        rest = [c for c in cases if len(json.loads(c)["ops"]) > 1]
        cases = singles + random.Random(ctx.seed).sample(rest, sample)
    cpath = os.path.join(ctx.dir, "cases%d.ndjson" % dim)
    with open(cpath, "w") as fh:
        for c in cases:
            fh.write(c + "\n")
    rpath = os.path.join(ctx.dir, "records%d.ndjson" % dim)
    spath = os.path.join(ctx.dir, "stats%d.json" % dim)
    ctx.drv(["c10-ops", "in=" + cpath, "out=" + rpath, "stats=" + spath, "dim=%d" % dim], timeout=2400)
    stats = json.load(open(spath))
    j = ctx.tlc("J%d" % dim, "mesh/SurgeryJudge", JUDGE, data={"records.ndjson": rpath}, workers=16, timeout=3000,
                heap="12g")
    ctx.require_clean(j, "J%d" % dim)
    ctx.add_tlc_counts(j)
    if j.distinct != 3 * stats["records"]:
        raise Infra("judge examined %d states for %d records" % (j.distinct, stats["records"]))
    rejects = [x for x in j.tagged("REJECT") if x[3] in CLAUSES]
    recs = {r["id"]: r for r in vlib.read_ndjson(rpath)}
    for (_, rid, stepno, clause) in rejects:
        rec = recs[rid]
        st = rec["steps"][stepno - 1]
        pkg = "model3d" if dim == 3 else "model2d"
        key = "%s.%s:%s" % (pkg, st["op"], clause)
        ctx.violation(key, "%s on %s after %s: clause %s%s (%d faces)" % (
            st["op"], rec["mesh"], rec["ops"][:stepno - 1], clause,
            (" " + st["outcome"] + " " + st["panic"][:100]) if st["outcome"] != "ok" else "", len(st["F"])),
            {"spec": "mesh/SurgeryJudge.tla", "clause": clause, "step": stepno,
             "record": {"mesh": rec["mesh"], "ops": rec["ops"], "dim": dim,
                        "steps": [{k: (v if k != "F" else v[:60]) for k, v in s.items()} for s in rec["steps"]]}})
    steps = sum(len(r["steps"]) for r in recs.values())
    ctx.counts["traces_validated_against_impl"] += stats["records"]
    ctx.counts["evaluations"] += steps
    ctx.counts["distinct_nontrivial"] += sum(1 for r in recs.values() if len(r["steps"]) > 1)
    ctx.stage("ops%d" % dim, kind="R+V", generated=total, chains=len(cases), steps=steps, rejected=len(rejects),
              skipped_after_hangs=stats.get("skipped-after-hangs", 0))
    ctx.samples.append({"chain%d" % dim: json.loads(cases[len(cases) // 2])})
    return len(rejects)


def run(ctx):
    quick = ctx.tier == "quick"
    ctx.rule = ("abstract surgery: all behaviours of depth <= 5 (6) from a tetrahedron with <= 7 (8) vertices; real code: every "
                "single operation on every palette mesh plus a seeded sample (thorough: all) of the two-operation chains; "
                "non-trivial = chains of two operations")
    ctx.assumptions = ["vertex identity = exact coordinate equality (the library's own notion)",
                       "placement rules and exact area/volume are decided by the harness with tolerance 1e-8 / 1e-9 and "
                       "handed to TLC as booleans (ARAP rigid motion: 1e-5)",
                       "a step is judged only if all earlier steps of the chain produced manifolds"]
    ctx.build_harness()
    lead = surgery_stage(ctx)
    n = ops_stage(ctx, 3, 2, sample=300 if quick else None)
    n += ops_stage(ctx, 2, 2, sample=150 if quick else None)
    if lead and n == 0:
        raise Infra("%s is refuted in mode E but no real operation broke the invariant: the model's guard is out of date"
                    % lead)
    ctx.extra["model_lead"] = lead or ""
