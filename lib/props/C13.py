"""C13 - concurrent read-only use is race-free and matches sequential use.

E   V2FLazyInit (double-checked locking of the lazy vertex index), all interleavings of 3 readers;
    SharedCellMax (height-map cells under concurrent max-updates).
V   hook traces of the real Mesh.getVertexToFace (2-4 readers, with and without a scheduler gate that
    releases late readers while the builder is inside the fill loop) validated by V2FTrace; the harness
    is built with -race, answers are compared with sequential use.
V   free-running scenarios under the race detector at GOMAXPROCS 2/4/16/1: every race report is a
    violation keyed by the two racing source locations.
"""
import glob
import json
import os
import re

import vlib
from vlib import Infra

E_CFG = """SPECIFICATION Spec
CONSTANTS Readers = {1, 2, 3}
INVARIANTS OneBuild Mutex PublishedComplete Agree
PROPERTIES AllReturn
CHECK_DEADLOCK FALSE
"""
T_CFG = """SPECIFICATION TSpec
CONSTANTS Readers = {1, 2, 3, 4}
INVARIANTS TInv EndOK
CHECK_DEADLOCK TRUE
"""
CELL_CFG = """SPECIFICATION Spec
CONSTANTS Workers = {1, 2, 3}
  Heights = {1, 2, 3}
  Locked = TRUE
INVARIANTS NoConflict FinalIsMax
CHECK_DEADLOCK FALSE
"""


def parse_races(logprefix):
    """Returns a list of (key, text) for every DATA RACE block in the race detector logs."""
    out = []
    for path in sorted(glob.glob(logprefix + ".*")):
        text = open(path, errors="replace").read()
        for block in text.split("WARNING: DATA RACE")[1:]:
            block = block.split("==================")[0]
            # first frame after each "... at 0x..." / "Previous ... at" header
            frames = []
            lines = block.splitlines()
            for i, ln in enumerate(lines):
                if re.match(r"^(Read|Write|Previous read|Previous write|Atomic|Previous atomic).* at 0x", ln.strip()):
                    # the next line that names a function in the library
                    for j in range(i + 1, min(i + 12, len(lines))):
                        m = re.match(r"^\s+(github\.com/unixpickle/model3d/\S+)\(\)\s*$", lines[j])
                        if m:
                            fn = m.group(1).replace("github.com/unixpickle/model3d/", "")
                            loc = lines[j + 1].strip() if j + 1 < len(lines) else ""
                            mm = re.search(r"/([a-z0-9_]+\.go):(\d+)", loc)
                            frames.append(fn + ("@" + mm.group(1) if mm else ""))
                            break
            frames = sorted(set(frames))
            key = "race:" + "|".join(frames) if frames else "race:unattributed"
            out.append((key, block.strip()[:3000]))
    return out


def crashed(ctx, p, what, racelog):
    """A Go runtime fatal error caused by unsynchronised access (it cannot be recovered, the whole
    driver dies) is behaviour of the real code under concurrent read-only use: a violation."""
    err = p.stderr or ""
    m = re.search(r"fatal error: (concurrent map [a-z ]+)", err)
    if p.returncode != 0 and m:
        fn = re.search(r"(github\.com/unixpickle/model3d/[^\s(]+(?:\([^)]*\))?[^\s(]*)\(", err[m.end():])
        where = fn.group(1).replace("github.com/unixpickle/model3d/", "") if fn else "?"
        ctx.violation("fatal:%s:%s" % (m.group(1).replace(" ", "-"), where),
                      "%s: the Go runtime aborted with '%s' during concurrent read-only use" % (what, m.group(1)),
                      {"stderr_tail": err[-3000:]})
        for key, text in parse_races(racelog):
            ctx.violation(key, "data race reported by the Go race detector", {"report": text})
        return True
    if p.returncode != 0:
        # a panic in a goroutine the library started (it cannot be recovered by the caller) while the
        # object was only being read by several callers
        kind, fn, msg = vlib.crash_origin(err, vlib.REPO)
        if kind == "library":
            ctx.violation("crash:%s:%s" % (what, fn.split("/")[-1]),
                          "%s: the process was killed inside %s during concurrent read-only use: %s" % (what, fn, msg),
                          {"stderr_tail": err[-3000:]})
            for key, text in parse_races(racelog):
                ctx.violation(key, "data race reported by the Go race detector", {"report": text})
            return True
    return False


def run(ctx):
    quick = ctx.tier == "quick"
    ctx.rule = ("protocol specs: all interleavings of 3 readers; hook traces: 2-4 readers x 5 meshes x (free / gated) x "
                "rounds, non-trivial = at least two readers found no index at their first load; stress scenarios under "
                "the race detector at GOMAXPROCS 2, 4, 16, 1")
    ctx.assumptions = ["the race detector only sees executed interleavings; the all-interleavings part is the exhaustive "
                       "model checking of the protocol specs plus conformance of the hook traces to them"]
    # E
    r = ctx.tlc("E-v2f", "conc/V2FLazyInit", E_CFG, workers=4, timeout=600)
    if r.invariant or (r.error and not r.completed):
        raise Infra("V2FLazyInit model violated: %s" % (r.invariant or r.error))
    ctx.require_clean(r, "E-v2f")
    ctx.add_tlc_counts(r)
    proof = {}
    if not quick:
        # the same invariants for ANY set of readers, by the TLA+ proof system (about the design; never a verdict)
        ok, nobl, tail = ctx.tlaps("v2f-proof", "conc/V2FLazyInitProof")
        proof = {"tlaps_proved": ok, "obligations": nobl}
        if not ok:
            vlib.log("  (the unbounded proof did not go through here; the bounded model checking above stands)\n" + tail[-400:])
    ctx.stage("E-v2f", kind="E", distinct=r.distinct, **proof)
    r = ctx.tlc("E-cell", "conc/SharedCellMax", CELL_CFG, workers=4, timeout=600)
    if r.invariant:
        raise Infra("SharedCellMax model violated: %s" % r.invariant)
    ctx.require_clean(r, "E-cell")
    ctx.add_tlc_counts(r)
    ctx.stage("E-cell", kind="E", distinct=r.distinct)

    ctx.build_harness(race=True)
    racelog = os.path.join(ctx.dir, "race")
    env = {"GORACE": "log_path=%s halt_on_error=0" % racelog}
    rpath = os.path.join(ctx.dir, "v2f-records.ndjson")
    spath = os.path.join(ctx.dir, "v2f-stats.json")
    p = ctx.drv(["c13-v2f", "out=" + rpath, "stats=" + spath, "rounds=%d" % (2 if quick else 12)], race=True,
                env_extra=env, timeout=1200, check=False)
    if crashed(ctx, p, "c13-v2f", racelog):
        return
    if not os.path.exists(spath):
        raise Infra("c13-v2f driver died: %s" % (p.stderr or "")[-2000:])
    stats = json.load(open(spath))
    j = ctx.tlc("V-v2f", "conc/V2FTrace", T_CFG, data={"records.ndjson": rpath}, workers=16, timeout=1200)
    if j.invariant:
        # invariant of the trace spec violated along a real trace
        ctx.violation("v2f-trace:%s" % j.invariant, "a recorded hook trace drives V2FLazyInit into a state violating %s" % j.invariant,
                      {"spec": "conc/V2FTrace.tla", "tlc_output_tail": open(j.stdout_path).read()[-3000:]})
    else:
        ctx.require_clean(j, "V-v2f")
    ctx.add_tlc_counts(j)
    recs = {r_["id"]: r_ for r_ in vlib.read_ndjson(rpath)}
    for (_, rid, line, ev) in j.tagged("REJECT"):
        rec = recs[rid]
        ctx.violation("v2f-trace:%s:%s" % (rec["site"], ev),
                      "hook trace #%d of %s (%d readers) is not a behaviour of V2FLazyInit at event %d (%s)" % (
                          rid, rec["site"], rec["readers"], line, ev),
                      {"spec": "conc/V2FTrace.tla", "trace_prefix": rec["ev"][:line]})
    for rec in recs.values():
        if rec["panic"]:
            ctx.violation("v2f-panic:%s" % rec["site"], "concurrent first queries panicked: %s" % rec["panic"][:300], {"record": rec["id"]})
        if rec["mismatches"]:
            ctx.violation("v2f-answers:%s" % rec["site"], "%d readers got answers different from sequential use" % rec["mismatches"],
                          {"record": rec["id"], "trace": rec["ev"]})
    ctx.counts["traces_validated_against_impl"] += stats["records"]
    ctx.counts["evaluations"] += stats["records"]
    ctx.counts["distinct_nontrivial"] += stats.get("nonempty", 0)
    ctx.stage("V-v2f", kind="V", records=stats["records"], events=stats["events"], contended=stats.get("nonempty", 0))
    ctx.samples.append({"hook_trace": next(iter(recs.values()))["ev"][:14]})

    # free-running stress
    opath = os.path.join(ctx.dir, "stress.json")
    p = ctx.drv(["c13-stress", "out=" + opath], race=True, env_extra=env, timeout=2400, check=False)
    if crashed(ctx, p, "c13-stress", racelog):
        return
    if not os.path.exists(opath):
        raise Infra("c13-stress driver died: %s" % (p.stderr or "")[-2000:])
    results = json.load(open(opath))
    for r_ in results:
        if r_["panic"]:
            ctx.violation("stress-panic:%s" % r_["name"], "scenario %s (GOMAXPROCS=%d) panicked: %s" % (r_["name"], r_["procs"], r_["panic"][:300]), r_)
        if r_["mismatches"]:
            ctx.violation("stress-answers:%s" % r_["name"], "scenario %s (GOMAXPROCS=%d): %d answers differ from sequential use" % (
                r_["name"], r_["procs"], r_["mismatches"]), r_)
    ctx.counts["evaluations"] += len(results)
    ctx.counts["distinct_nontrivial"] += len(results)
    ctx.stage("stress", kind="V", scenarios=sorted({r_["name"] for r_ in results}), runs=len(results))
    races = parse_races(racelog)
    for key, text in races:
        ctx.violation(key, "data race reported by the Go race detector", {"report": text})
    ctx.extra["race_reports"] = len(races)
