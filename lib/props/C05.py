"""C05 - transforms invert, and transformed objects are images of the original.

Stages
  G    TLC enumerates every chain (JoinedTransform) of at most L atoms of Transforms.tla - integer
       and half translations, scales 2, 1/2, 3, a mirroring VecScale, axis permutation, shear,
       determinant-2 and non-orthogonal determinant-1 matrices, quarter/half-turn rotations - in
       every order (mode R).
  R/V  the harness builds each chain with the real transforms, logs Apply / Inverse / ApplyBounds /
       ApplyDistance on lattice points and probes TransformSolid / TransformSDF / TransformMetaball
       / TransformCollider wrapped around a box; TransformJudge compares with the exact rational
       semantics (images of points, k-scaled distances, original ray parameters, image normals).
"""
import json
import os

import vlib
from vlib import Infra

GEN = "SPECIFICATION GenSpec\nCONSTANTS\n  MaxLen = %d\nCHECK_DEADLOCK FALSE\n"
JUDGE = "SPECIFICATION Spec\nCHECK_DEADLOCK FALSE\n"
CLAUSES = {"panic", "apply", "inverse", "bounds", "distance", "solid", "sdf", "meta", "ray", "ball"}


def chains_stage(ctx, clauses=None, label="chains"):
    """Every chain of transform atoms, run against the real transforms and wrapped objects; clauses selects which
    clauses of TransformJudge are claimed (C06 and C07 re-use the stage for transformed fields / colliders)."""
    quick = ctx.tier == "quick"
    clauses = CLAUSES if clauses is None else clauses
    g = ctx.tlc("G", "solids/TransformGen", GEN % (2 if quick else 3), workers=8, timeout=900, tags=("CASE",))
    ctx.require_clean(g, "G")
    ctx.add_tlc_counts(g)
    cases = [json.loads(c[1]) for c in g.tagged("CASE")]
    if len(cases) < 13:
        raise Infra("transform chains not generated")
    cpath = os.path.join(ctx.dir, "cases.ndjson")
    vlib.write_ndjson(cpath, cases)
    rpath = os.path.join(ctx.dir, "records.ndjson")
    spath = os.path.join(ctx.dir, "stats.json")
    ctx.drv(["c05-transform", "in=" + cpath, "out=" + rpath, "stats=" + spath, "probes=%d" % (12 if quick else 30),
             "seed=%d" % ctx.seed])
    stats = json.load(open(spath))
    j = ctx.tlc("J", "solids/TransformJudge", JUDGE, data={"records.ndjson": rpath}, workers=16, timeout=3000, heap="10g",
                tags=("REJECT", "NOTE"))
    ctx.require_clean(j, "J")
    ctx.add_tlc_counts(j)
    if j.distinct != 2 * stats["records"]:
        raise Infra("judge examined %d states for %d records" % (j.distinct, stats["records"]))
    recs = {r["id"]: r for r in vlib.read_ndjson(rpath)}
    rejects = [x for x in j.tagged("REJECT") if x[3] in clauses]
    for (_, rid, _l, clause) in rejects:
        rec = recs[rid]
        kinds = sorted({a[0] if a[0] in "TSVR" else "M" for a in rec["chain"]})
        key = "%s:%s:%s" % (rec["site"], clause, "+".join(kinds))
        ctx.violation(key, "chain %s: clause %s%s" % (rec["chain"], clause,
                                                    (" panic=" + rec["panic"][:160]) if rec["panic"] else ""),
                      {"spec": "solids/TransformJudge.tla", "clause": clause,
                       "record": {k: v for k, v in rec.items() if k not in ("pts",)}})
    decided = sum(x[2] for x in j.tagged("NOTE"))
    if decided < 50:
        raise Infra("only %d rays decided" % decided)
    ctx.counts["traces_validated_against_impl"] += stats["records"]
    ctx.counts["evaluations"] += stats["records"]
    ctx.counts["distinct_nontrivial"] += sum(1 for r in recs.values() if len(r["chain"]) >= 2)
    ctx.stage(label, kind="R+V", chains=len(cases), dist_chains=stats.get("dist", 0), rays_decided=decided,
              rejected=len(rejects), clauses=sorted(clauses))
    ctx.samples.append({"chain": cases[len(cases) // 2]})


def run(ctx):
    quick = ctx.tier == "quick"
    ctx.rule = ("every chain of <= 2 (thorough 3) atoms out of 13 in every order; per chain 150 lattice points (apply, inverse, "
                "bounds) and 12 (30) seeded probes per wrapped object; non-trivial = chains of length >= 2")
    ctx.assumptions = ["unit = 8 lattice steps: all images are integer vectors (the spec flags the rest as undecided)",
                       "rotations are quarter / half turns (entries exact to 1 ulp); general angles are not covered",
                       "ball tangency and rays not in general position are not decided"]
    ctx.build_harness()
    chains_stage(ctx)
    ctx.extra["exhaustive"] = True
    squeeze_stage(ctx, quick)


SQ_CLAUSES = {"panic", "apply", "inverse", "bounds", "solid"}


def squeeze_stage(ctx, quick):
    """toolbox3d axis maps: TLC enumerates squeezes / pinches / smart squeezes over whole-unit data
    (Squeeze.tla holds the documented semantics), the harness probes the real transforms on the
    half-unit lattice, SqueezeJudge decides in integers."""
    import random
    g = ctx.tlc("G-squeeze", "solids/SqueezeGen", "SPECIFICATION Spec\nCONSTANTS\n  Level = %d\nCHECK_DEADLOCK FALSE\n"
                % (0 if quick else 1), workers=16, timeout=1500, tags=("CASE",), heap="8g")
    ctx.require_clean(g, "G-squeeze")
    ctx.add_tlc_counts(g)
    cases = sorted({c[1] for c in g.tagged("CASE")})
    total = len(cases)
    smart = [c for c in cases if '"smart"' in c]
    rest = [c for c in cases if '"smart"' not in c]
    if not smart or not rest:
        raise Infra("squeeze generator produced no cases")
    want = 2500 if quick else 40000
    if len(smart) > want:
        smart = random.Random(ctx.seed).sample(smart, want)
    cases = rest + smart
    cpath = os.path.join(ctx.dir, "cases-squeeze.ndjson")
    with open(cpath, "w") as fh:
        for c in cases:
            fh.write(c + "\n")
    rpath = os.path.join(ctx.dir, "records-squeeze.ndjson")
    spath = os.path.join(ctx.dir, "stats-squeeze.json")
    ctx.drv(["c05-squeeze", "in=" + cpath, "out=" + rpath, "stats=" + spath])
    stats = json.load(open(spath))
    j = ctx.tlc("J-squeeze", "solids/SqueezeJudge", JUDGE, data={"records.ndjson": rpath}, workers=16, timeout=3000,
                heap="10g")
    ctx.require_clean(j, "J-squeeze")
    ctx.add_tlc_counts(j)
    if j.distinct != 2 * stats["records"]:
        raise Infra("squeeze judge examined %d states for %d records" % (j.distinct, stats["records"]))
    rejects = [x for x in j.tagged("REJECT") if x[3] in SQ_CLAUSES]
    if rejects:
        recs = {r["id"]: r for r in vlib.read_ndjson(rpath)}
        for (_, rid, _l, clause) in rejects:
            rec = recs[rid]
            key = "toolbox3d.%s:%s" % (rec["site"], clause)
            ctx.violation(key, "%s %s: clause %s%s" % (rec["site"], json.dumps(rec["case"]), clause,
                                                     (" panic=" + rec["panic"][:160]) if rec["panic"] else ""),
                          {"spec": "solids/SqueezeJudge.tla", "clause": clause, "record": rec})
    ctx.counts["traces_validated_against_impl"] += stats["records"]
    ctx.counts["evaluations"] += stats["records"]
    ctx.counts["distinct_nontrivial"] += len(smart)
    ctx.stage("squeeze", kind="R+V", generated=total, used=len(cases), records=stats["records"], rejected=len(rejects),
              sites={k[5:]: v for k, v in stats.items() if k.startswith("site:")}, panics=stats.get("panics", 0),
              clauses=sorted(SQ_CLAUSES))
    ctx.samples.append({"squeeze": json.loads(smart[len(smart) // 2])})
