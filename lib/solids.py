"""Shared stage for the box-world solid checks (C03, C04)."""
import json
import os

import vlib
from vlib import Infra


def judge_stage(ctx, name, drv_args, clauses, judge="solids/SolidJudge", timeout=1800, keyfn=None):
    rpath = os.path.join(ctx.dir, "records-%s.ndjson" % name)
    spath = os.path.join(ctx.dir, "stats-%s.json" % name)
    ctx.drv(list(drv_args) + ["out=" + rpath, "stats=" + spath, "seed=%d" % ctx.seed], timeout=1500)
    stats = json.load(open(spath))
    if stats.get("records", 0) == 0:
        raise Infra("driver produced no records for %s" % name)
    j = ctx.tlc("J-" + name, judge, "SPECIFICATION Spec\nCHECK_DEADLOCK FALSE\n",
                data={"records.ndjson": rpath}, workers=16, timeout=timeout, heap="10g")
    ctx.require_clean(j, "J-" + name)
    ctx.add_tlc_counts(j)
    if j.distinct != 2 * stats["records"]:
        raise Infra("judge examined %d states for %d records" % (j.distinct, stats["records"]))
    rejects = [x for x in j.tagged("REJECT") if x[3] in clauses]
    if rejects:
        recs = {r["id"]: r for r in vlib.read_ndjson(rpath)}
        for (_, rid, _line, clause) in rejects:
            rec = recs[rid]
            key = keyfn(rec, clause) if keyfn else "%s:%s:%s" % (rec["site"], rec["variant"], clause)
            small = dict(rec)
            for big in ("inside", "queries"):
                if big in small and len(small[big]) > 200:
                    small[big] = small[big][:200] + ["..."]
            what = "%s (%s) record #%d: clause %s%s" % (rec.get("site", name), rec.get("variant", ""), rid, clause,
                                                       (" panic=" + rec["panic"][:200]) if rec.get("panic") else "")
            ctx.violation(key, what, {"spec": judge + ".tla", "record": small})
    ctx.counts["traces_validated_against_impl"] += stats["records"]
    ctx.counts["evaluations"] += stats["records"]
    ctx.counts["distinct_nontrivial"] += stats.get("nonempty", 0)
    ctx.stage(name, kind="V", records=stats["records"], nonempty=stats.get("nonempty", 0),
              sites={k[5:]: v for k, v in stats.items() if k.startswith("site:")}, rejected=len(rejects),
              clauses=sorted(clauses))
    if len(ctx.samples) < 4:
        s = vlib.read_ndjson_head(rpath, 7)
        if s:
            ctx.samples.append({k: s[0][k] for k in ("site", "variant", "tree") if k in s[0]})
    return stats
