"""Shared stages for the lattice-meshing properties (C01, C02, C12)."""
import json
import os

import vlib
from vlib import Infra

WINDOW_CFG = """SPECIFICATION Spec
CONSTANTS
  NX = %d
  NY = %d
  NZ = %d
INVARIANTS InvVerts InvNoDup InvClosed InvFan InvOrient
CHECK_DEADLOCK FALSE
"""


def gen_table(ctx):
    """MCTable.tla generated from the code under test (export cross-checked black-box)."""
    path = os.path.join(ctx.dir, "MCTable.tla")
    if not os.path.exists(path):
        ctx.drv(["c01-table", "out=" + path])
        for mm in json.load(open(path + ".mismatch.json"))[:3]:
            name = "MarchingCubes" if mm["dim"] == 3 else "MarchingSquares"
            ctx.violation("%s:one-cell:table" % name,
                          "%s on the one-cell lattice with corner configuration %d does not produce its lookup-table row "
                          "(table %s, mesher %s)" % (name, mm["row"], mm["export"], mm["mesher"]),
                          {"spec": "lattice/McLocal.tla", "mismatch": mm})
    return open(path).read()


def window_stage(ctx, windows, module="lattice/McLocal", cfg=WINDOW_CFG, prefix="W"):
    """Mode E on implementation-derived data: every configuration of the given windows."""
    tab = gen_table(ctx)
    for w in windows:
        st = prefix + "".join(str(x) for x in w)
        r = ctx.tlc(st, module, cfg % tuple(w), generated={"MCTable.tla": tab}, workers=16, timeout=3000)
        ctx.add_tlc_counts(r)
        if r.invariant:
            # the table is the code's own data: an invariant violation here IS a statement
            # about the code (every lattice containing this window is meshed wrongly)
            ctx.violation("lookup-table:%s:%s" % (st, r.invariant),
                          "window %s of the exported lookup table violates %s (see %s)" % (st, r.invariant, r.stdout_path),
                          {"spec": module + ".tla", "window": list(w), "invariant": r.invariant,
                           "tlc_output_tail": open(r.stdout_path).read()[-3000:]})
        else:
            ctx.require_clean(r, st)
        ctx.stage(st, kind="E-window", distinct=r.distinct, leaves=(r.distinct + 1) // 2)
        ctx.extra["windows_exhaustive"] = ctx.extra.get("windows_exhaustive", 0) + 1


def lattice_stage(ctx, name, plan, clauses, cmd="c01-lattice", judge="lattice/LatticeJudge", sitename="MarchingCubes",
                  timeout=2400):
    tab = gen_table(ctx)
    rpath = os.path.join(ctx.dir, "records-%s.ndjson" % name)
    spath = os.path.join(ctx.dir, "stats-%s.json" % name)
    ctx.drv([cmd, "out=" + rpath, "stats=" + spath, "plan=" + plan, "seed=%d" % ctx.seed], timeout=1200)
    stats = json.load(open(spath))
    if stats.get("records", 0) == 0:
        raise Infra("lattice driver produced no records for %s" % name)
    j = ctx.tlc("J-" + name, judge, "SPECIFICATION Spec\nCHECK_DEADLOCK FALSE\n", generated={"MCTable.tla": tab},
                data={"records.ndjson": rpath}, workers=16, timeout=timeout, heap="10g")
    ctx.require_clean(j, "J-" + name)
    ctx.add_tlc_counts(j)
    if j.distinct != 2 * stats["records"]:
        raise Infra("judge examined %d states for %d records" % (j.distinct, stats["records"]))
    rejects = [x for x in j.tagged("REJECT") if x[3] in clauses]
    ignored = len(j.tagged("REJECT")) - len(rejects)
    undecided = len([x for x in j.tagged("NOTE") if x[2] == "undecided"])
    guarded = stats.get("guarded", 0)
    if guarded and undecided * 5 > guarded * 4:
        raise Infra("%d of %d margin-guarded coarse-to-fine records undecided" % (undecided, guarded))
    if rejects:
        recs = {r["id"]: r for r in vlib.read_ndjson(rpath)}
        for (_, rid, _line, clause) in rejects:
            rec = recs[rid]
            key = "%s:%s:%s" % (sitename, rec["variant"], clause)
            what = "lattice %s inside=%s variant %s (%s): clause %s%s" % (
                rec["n"], "".join(map(str, rec["inside"]))[:64], rec["variant"], rec.get("cfg", ""), clause,
                (" panic=" + rec["panic"][:200]) if rec.get("panic") else "")
            ctx.violation(key, what, {"spec": judge + ".tla", "record": rec})
    ctx.counts["traces_validated_against_impl"] += stats["records"]
    ctx.counts["evaluations"] += stats["records"]
    ctx.counts["distinct_nontrivial"] += stats.get("nonempty", 0)
    ctx.stage(name, kind="R/V", plan=plan, records=stats["records"], nonempty=stats.get("nonempty", 0),
              triangles=stats.get("triangles", 0), rejected=len(rejects), rejects_of_other_clauses=ignored,
              clauses=sorted(clauses), margin_guarded=guarded, margin_guarded_undecided=undecided)
    if len(ctx.samples) < 4:
        first = next(iter(vlib.read_ndjson_head(rpath, 40)), None)
        if first:
            ctx.samples.append({k: first[k] for k in ("n", "inside", "variant", "cfg") if k in first})
    return stats


def complex_stage(ctx, name, drv_args, clauses, timeout=1800):
    """Generic: a driver command writes complex records, ComplexJudge judges them."""
    rpath = os.path.join(ctx.dir, "records-%s.ndjson" % name)
    spath = os.path.join(ctx.dir, "stats-%s.json" % name)
    ctx.drv(list(drv_args) + ["out=" + rpath, "stats=" + spath, "seed=%d" % ctx.seed], timeout=1500)
    stats = json.load(open(spath))
    if stats.get("records", 0) == 0:
        raise Infra("driver produced no records for %s" % name)
    j = ctx.tlc("J-" + name, "mesh/ComplexJudge", "SPECIFICATION Spec\nCHECK_DEADLOCK FALSE\n",
                data={"records.ndjson": rpath}, workers=16, timeout=timeout, heap="10g")
    ctx.require_clean(j, "J-" + name)
    ctx.add_tlc_counts(j)
    if j.distinct != 2 * stats["records"]:
        raise Infra("judge examined %d states for %d records" % (j.distinct, stats["records"]))
    rejects = [x for x in j.tagged("REJECT") if x[3] in clauses]
    if rejects:
        recs = {r["id"]: r for r in vlib.read_ndjson(rpath)}
        for (_, rid, _line, clause) in rejects:
            rec = recs[rid]
            key = "%s:%s:%s" % (rec["site"], rec["variant"], clause)
            what = "%s (%s) record #%d: clause %s%s" % (rec["site"], rec["variant"], rid, clause,
                                                       (" panic=" + rec["panic"][:200]) if rec.get("panic") else "")
            ctx.violation(key, what, {"spec": "mesh/ComplexJudge.tla", "record": rec})
    ctx.counts["traces_validated_against_impl"] += stats["records"]
    ctx.counts["evaluations"] += stats["records"]
    ctx.counts["distinct_nontrivial"] += stats.get("nonempty", 0)
    ctx.stage(name, kind="V", records=stats["records"], nonempty=stats.get("nonempty", 0),
              sites={k[5:]: v for k, v in stats.items() if k.startswith("site:")}, rejected=len(rejects))
    return stats


def dc_stage(ctx, name, plan, clauses, timeout=1800):
    rpath = os.path.join(ctx.dir, "records-%s.ndjson" % name)
    spath = os.path.join(ctx.dir, "stats-%s.json" % name)
    ctx.drv(["c02-dc", "out=" + rpath, "stats=" + spath, "plan=" + plan, "seed=%d" % ctx.seed], timeout=1200)
    stats = json.load(open(spath))
    if stats.get("records", 0) == 0:
        raise Infra("dc driver produced no records")
    j = ctx.tlc("J-" + name, "lattice/DcJudge", "SPECIFICATION Spec\nCHECK_DEADLOCK FALSE\n",
                data={"records.ndjson": rpath}, workers=16, timeout=timeout, heap="10g")
    ctx.require_clean(j, "J-" + name)
    ctx.add_tlc_counts(j)
    if j.distinct != 2 * stats["records"]:
        raise Infra("judge examined %d states for %d records" % (j.distinct, stats["records"]))
    rejects = [x for x in j.tagged("REJECT") if x[3] in clauses]
    if rejects:
        recs = {r["id"]: r for r in vlib.read_ndjson(rpath)}
        for (_, rid, _line, clause) in rejects:
            rec = recs[rid]
            key = "DualContouring:%s" % clause
            what = "lattice %s inside=%s cfg %s: clause %s%s" % (
                rec["n"], "".join(map(str, rec["inside"]))[:64], rec["cfg"], clause,
                (" panic=" + rec["panic"][:200]) if rec.get("panic") else "")
            ctx.violation(key, what, {"spec": "lattice/DcJudge.tla", "record": rec})
    ctx.counts["traces_validated_against_impl"] += stats["records"]
    ctx.counts["evaluations"] += stats["records"]
    ctx.counts["distinct_nontrivial"] += stats.get("nonempty", 0)
    ctx.stage(name, kind="R/V", plan=plan, records=stats["records"], nonempty=stats.get("nonempty", 0),
              triangles=stats.get("triangles", 0), rejected=len(rejects), clauses=sorted(clauses))
    return stats
