"""C06 stage "prims": the primitive shapes as SDF / PointSDF / NormalSDF, queried at quarter-lattice points including
the exact centre, axis points, apex, torus ring points and surface points; judged by spec/geom/PrimJudge.tla
(exact distances for spheres / circles / boxes, tolerance laws decided in the harness for the others).

Also model3d.ProfilePointSDF / ProfileSDF / ProfileSolid of a 2D Rect (= box, exact) and of a 2D Circle (= cylinder,
tolerance laws); these fields have no NormalSDF; MeshToSDF over integer tetrahedra / octahedra with obtuse corners,
|SDF| compared with a brute-force minimum over the faces (clause "distance"); these fields have no NormalSDF, the normal clauses are vacuous for them (record field nonormal)."""
import solids

CLAUSES = {"panic", "sign", "agree", "point", "normal", "exact", "distance"}


def run(ctx):
    quick = ctx.tier == "quick"
    solids.judge_stage(ctx, "prims", ["c06-prims", "n=%d" % (6 if quick else 40), "q=%d" % (60 if quick else 120)], CLAUSES,
                       judge="geom/PrimJudge", keyfn=lambda rec, clause: "%s:%s" % (rec["site"], clause))
