def run(ctx):
    pass
