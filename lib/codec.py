"""Shared stages of the file-format checks (C15, C16)."""
import json
import os
import resource
import subprocess

import vlib
from vlib import Infra, log

FAULT_CFG = """SPECIFICATION Spec
CONSTANTS
  Fmt = "%s"
  Tier = "%s"
  OnlyValid = %s
CHECK_DEADLOCK FALSE
"""
JUDGE_CFG = "SPECIFICATION Spec\nCHECK_DEADLOCK FALSE\n"
FORMATS = ["off", "stla", "stlb", "plya", "plyb", "csv"]


def gen_cases(ctx, fmt, only_valid):
    tier = "quick" if ctx.tier == "quick" else "thorough"
    stage = "G-%s%s" % (fmt, "-valid" if only_valid else "")
    g = ctx.tlc(stage, "codec/CodecFaults", FAULT_CFG % (fmt, tier, "TRUE" if only_valid else "FALSE"),
                workers=8, timeout=1200, tags=("CASE",), heap="6g")
    ctx.require_clean(g, stage)
    ctx.add_tlc_counts(g)
    cases = [json.loads(c[1]) for c in g.tagged("CASE")]
    if not cases:
        raise Infra("no cases generated for %s" % fmt)
    if g.distinct != 2 * len(cases):
        raise Infra("case generator %s: %d states for %d cases" % (fmt, g.distinct, len(cases)))
    path = os.path.join(ctx.dir, "cases-%s%s.ndjson" % (fmt, "-valid" if only_valid else ""))
    vlib.write_ndjson(path, cases)
    return path, len(cases)


def _limit():
    # a decoder that allocates from an adversarial count must fail fast, not swap
    gib = 12 * 1024 ** 3
    resource.setrlimit(resource.RLIMIT_AS, (gib, gib))


def run_faults(ctx, fmt, cpath, ncases, tag, env_extra=None):
    """Runs the decoders of one format over the cases.  If the process dies (an allocation
    the runtime cannot satisfy is not recoverable) the case that killed it is recorded with
    outcome "crash" and the run resumes after it."""
    binp = ctx.build_harness()
    rpath = os.path.join(ctx.dir, "records-%s.ndjson" % tag)
    open(rpath, "w").close()
    marker = os.path.join(ctx.dir, "marker-%s" % tag)
    skip = 0
    firstid = 0
    stats_total = {}
    crashes = 0
    site_crashes = {}
    while True:
        part = os.path.join(ctx.dir, "part-%s.ndjson" % tag)
        spath = os.path.join(ctx.dir, "stats-%s.json" % tag)
        for p in (marker, spath):
            if os.path.exists(p):
                os.remove(p)
        cmd = [binp, "c16-faults", "in=" + cpath, "out=" + part, "stats=" + spath, "marker=" + marker,
               "skip=%d" % skip, "firstid=%d" % firstid,
               "skipsites=" + ",".join(sorted(k for k, v in site_crashes.items() if v >= 4))]
        try:
            p = subprocess.run(cmd, cwd=ctx.dir, stdout=subprocess.PIPE, stderr=subprocess.PIPE, text=True,
                               timeout=1500, preexec_fn=_limit, env=dict(os.environ, **(env_extra or {})))
        except subprocess.TimeoutExpired:
            raise Infra("fault harness timed out (%s)" % tag)
        recs = []
        if os.path.exists(part):
            with open(part) as fh:
                for ln in fh:
                    try:
                        recs.append(json.loads(ln))
                    except ValueError:
                        break  # the process died while writing this line
        with open(rpath, "a") as fh:
            for r in recs:
                fh.write(json.dumps(r, separators=(",", ":")) + "\n")
        if p.returncode == 0:
            st = json.load(open(spath))
            for k, v in st.items():
                stats_total[k] = stats_total.get(k, 0) + v
            break
        if not os.path.exists(marker):
            raise Infra("fault harness failed rc=%s: %s" % (p.returncode, p.stderr[-2000:]))
        n, rid, site = open(marker).read().split()
        n, rid = int(n), int(rid)
        crashes += 1
        site_crashes[site] = site_crashes.get(site, 0) + 1
        tail = ""
        for ln in (p.stderr or "").splitlines():
            if ln.startswith(("fatal error:", "runtime:", "panic:")):
                tail = ln.strip()
                if ln.startswith("fatal error:"):
                    break
        tail = tail or "process died rc=%s" % p.returncode
        kind = "crash"
        log("[c16] process died at case %d (%s): %s" % (n, site, tail))
        case = vlib.read_ndjson_head(cpath, n)[0]
        rec = {"kind": "fault", "id": rid, "site": site, "variant": case["var"], "fmt": case["fmt"],
               "fault": case["fault"]["kind"], "k": case["fault"]["k"], "j": case["fault"]["j"],
               "s": case["fault"]["s"], "valid": False, "len": 0, "outcome": kind, "rows": 0, "allockb": 0,
               "meshok": False, "panic": "process died: " + tail[:200], "noisy": False}
        with open(rpath, "a") as fh:
            fh.write(json.dumps(rec, separators=(",", ":")) + "\n")
        # records of the killed case that were already written stay; resume after that case
        ids = [r["id"] for r in recs] + [rid]
        firstid = max(ids)
        skip = n
        stats_total["crash"] = stats_total.get("crash", 0) + 1
        if crashes > 40:
            # a decoder that keeps killing the process (an allocation the runtime cannot satisfy is not recoverable):
            # every death so far is on record and is judged; the rest of the cases is not run
            log("[c16] more than 40 process deaths (%s): stopping this format here" % tag)
            stats_total["aborted_after_crashes"] = 1
            break
    stats_total["records"] = sum(1 for _ in open(rpath))
    if stats_total.get("crash"):
        # the per-part statistics of a part that died are lost: count from the records themselves
        for k in [k for k in stats_total if k.startswith(("outcome:", "site:")) or k == "valid"]:
            del stats_total[k]
        for r in vlib.read_ndjson(rpath):
            stats_total["outcome:" + r["outcome"]] = stats_total.get("outcome:" + r["outcome"], 0) + 1
            stats_total["site:" + r["site"]] = stats_total.get("site:" + r["site"], 0) + 1
            if r.get("valid"):
                stats_total["valid"] = stats_total.get("valid", 0) + 1
    return rpath, stats_total


def fault_key(rec, clause):
    f = rec["fault"]
    what = f
    if f == "repl":
        what = "repl(%s)" % rec["s"]
    if clause == "valid":
        return "%s:%s:valid-file-rejected:%s%s" % (rec["site"], rec["fmt"], rec["variant"],
                                                  "" if f == "none" else ":no-final-newline")
    pan = (rec.get("panic") or "").replace("interface conversion: fileformats.PLYValue is fileformats.", "conv:")[:90]
    return "%s:%s:%s:%s" % (rec["site"], rec["fmt"], clause, pan if clause == "panic" else what)


def judge(ctx, name, rpath, nrecords, clauses, keyfn, timeout=1800):
    j = ctx.tlc("J-" + name, "codec/CodecJudge", JUDGE_CFG, data={"records.ndjson": rpath}, workers=16,
                timeout=timeout, heap="10g")
    ctx.require_clean(j, "J-" + name)
    ctx.add_tlc_counts(j)
    if j.distinct != 2 * nrecords:
        raise Infra("judge %s examined %d states for %d records" % (name, j.distinct, nrecords))
    rejects = [x for x in j.tagged("REJECT") if x[3] in clauses]
    if rejects:
        recs = {r["id"]: r for r in vlib.read_ndjson(rpath)}
        for (_, rid, _l, clause) in rejects:
            rec = recs[rid]
            ctx.violation(keyfn(rec, clause), "%s record #%d: clause %s: %s" % (
                rec.get("site"), rid, clause, json.dumps({k: rec[k] for k in rec if k not in ("hex",)})[:400]),
                {"spec": "codec/CodecJudge.tla", "clause": clause, "record": rec})
    ctx.counts["traces_validated_against_impl"] += nrecords
    ctx.counts["evaluations"] += nrecords
    return len(rejects)
