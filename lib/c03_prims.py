"""C03 stage "prims": primitive solids with integer data (tilted cylinders / capsules / cones / tori, polytopes,
metaball solids under Transform / Scale / VecScale, 2D shapes, BitmapToSolid, toolbox3d solids) probed on the quarter
lattice around their bounds; judged by spec/geom/PrimJudge.tla (exact membership in integer arithmetic).

Derived solids with an exactly known shape (harness c03_derived.go): model3d.ProfileSolid(Rect) = box;
model3d/model2d.SDFToSolid(Rect, outset) = open / rounded / smaller box; model3d.RevolveSolid(Rect, integer axis) =
annular cylinder; model3d.CrossSectionSolid(Rect / Sphere) = 2D rect / circle; model3d/model2d.NewColliderSolidInset
(Rect or its mesh collider, inset > 0 / < 0) = smaller / rounded box; model3d/model2d.NewColliderSolidHollow = shell
around the box surface; model3d/model2d.CheckedFuncSolid(min, max, f) = box intersected with f.  Wrappers around a box:
model3d/model2d.TranslateSolid, ScaleSolid, RotateSolid (quarter turns), VecScaleSolid (negative components) = the image
box; toolbox3d.ClampAxisMax/Min and ClampXMax..ClampZMin of a Rect / Sphere = box / ball cut at the plane;
model3d/model2d.FuncSolid (invalid bounds must panic); toolbox3d.RadialCurve = cylinder / cone over a straight curve, the
points within r of a closed square loop.  Probes exactly on the boundary of the true shape are not decided."""
import solids

CLAUSES = {"panic", "bounds", "leak", "cut"}


def run(ctx):
    quick = ctx.tier == "quick"
    solids.judge_stage(ctx, "prims", ["c03-prims", "n=%d" % (4 if quick else 24)], CLAUSES, judge="geom/PrimJudge",
                       keyfn=lambda rec, clause: "%s:%s" % (rec["site"], clause))
