"""C03 stage "prims": primitive solids with integer data (tilted cylinders / capsules / cones / tori, polytopes,
metaball solids under Transform / Scale / VecScale, 2D shapes, BitmapToSolid, toolbox3d solids) probed on the quarter
lattice around their bounds; judged by spec/geom/PrimJudge.tla (exact membership in integer arithmetic)."""
import solids

CLAUSES = {"panic", "bounds", "leak", "cut"}


def run(ctx):
    quick = ctx.tier == "quick"
    solids.judge_stage(ctx, "prims", ["c03-prims", "n=%d" % (4 if quick else 24)], CLAUSES, judge="geom/PrimJudge",
                       keyfn=lambda rec, clause: "%s:%s" % (rec["site"], clause))
