"""C08 stage "accel2" (harness c08-accel2, judge spec/spatial/Accel2Judge.tla): the 2-D accelerated queries and the
grouping routines of both dimensions.

Worlds: every non-empty union of unit pixels of a 3x2 grid and seeded larger ones (outline segments with outward
normals), a palette of non-lattice polygons with integer vertices under the lattice symmetries, random star-shaped
integer polygons, segment soups with coincident segments and flat boxes, the empty set and single segments.
Objects: model2d.MeshToCollider, BVHToCollider over NewBVHAreaDensity and over hand-built hierarchies with 2..4
children per branch, GroupSegments + GroupedSegmentsToCollider (also ungrouped: grouping is documented as a matter
of efficiency only), randomly nested NewJoinedCollider, MeshToSDF, GroupedSegmentsToSDF (grouped / ungrouped).
Queries: half-integer origins, integer directions scaled by 2^-e (e in 0, 1, 10, 30, -3), rays aimed at vertices and
starting on the bounding box, balls of radius m/2 (tangency included), segments, rectangles (flat ones included).

Oracle of the scan-* / sdf-dist / grouping clauses: the literal linear scan over the individual segments with the
same primitive routines.  The clauses count / contains / sdf-exact / sdf-sign use exact integer answers (crossing
count of rays in general position, even-odd parity off the outline, rational squared distance) and belong to
C07 / C06, which run this stage with their own clause sets."""
import solids
from vlib import Infra

C08_CLAUSES = {"panic", "scan-rays", "scan-first", "scan-ball", "scan-multi", "sdf-dist", "sdf-sign", "grouping"}
C07_CLAUSES = {"panic", "scan-first", "count", "contains"}
C06_CLAUSES = {"panic", "sdf-dist", "sdf-sign", "sdf-exact"}


def run(ctx, clauses=C08_CLAUSES, kinds="collider,sdf,grouping", name="accel2"):
    quick = ctx.tier == "quick"
    plan = ("small;all:3,2;rand:4,3:12;rand:5,4:6;poly:20;star:10;soup:15" if quick else
            "small;all:3,2;rand:4,3:150;rand:5,4:80;rand:6,5:30;poly:160;star:100;soup:150")
    stats = solids.judge_stage(ctx, name, ["c08-accel2", "kinds=" + kinds, "plan=" + plan,
                                           "rays=%d" % (40 if quick else 80), "balls=%d" % (24 if quick else 40),
                                           "sdf=%d" % (40 if quick else 80)],
                               set(clauses), judge="spatial/Accel2Judge", timeout=3000)
    # vacuity guards: the comparisons must have had something to compare
    need = []
    if "collider" in kinds:
        need += ["rays-hitting", "rays-gp", "balls-hitting", "multi-hitting"]
    if "sdf" in kinds:
        need += ["sdf-signed"]
    if "grouping" in kinds:
        need += ["kind:grouping"]
    for k in need:
        if stats.get(k, 0) == 0:
            raise Infra("stage %s: vacuous (%s = 0)" % (name, k))
    return stats
