"""C07 stage "prims": the primitive shapes as colliders with integer rays (directions in [-3,3]^3 scaled by 1, 2^-30
and 2^10) and balls of radius m/4; judged by spec/geom/PrimJudge.tla (exact hit counts for spheres / circles / boxes
from integer sign analysis, consistency laws decided in the harness for the others).

Also model3d.ProfileCollider of a 2D Rect (= box: exact hit counts and parameters, exact ball test) and of a 2D Circle
(= cylinder: consistency laws against the reference cylinder's own field)."""
import solids

CLAUSES = {"panic", "count", "hits", "first", "parity", "ball", "exact"}


def run(ctx):
    quick = ctx.tier == "quick"
    solids.judge_stage(ctx, "prims", ["c07-prims", "n=%d" % (6 if quick else 40), "rays=%d" % (60 if quick else 120),
                                      "balls=%d" % (20 if quick else 40)], CLAUSES,
                       judge="geom/PrimJudge", keyfn=lambda rec, clause: "%s:%s" % (rec["site"], clause))
