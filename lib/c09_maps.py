"""C09, coordinate-keyed maps: E (refinement of the fast/slow representation),
R (TLC-enumerated histories), V (MapTrace)."""
import json
import os

import vlib
from vlib import Infra

GEN = """SPECIFICATION %(spec)s
CONSTANTS
  Keys <- Keys4
  Hash <- Hash4
  Vals = {1, 2}
  MaxLen = %(maxlen)d
INVARIANTS Emit
CHECK_DEADLOCK FALSE
"""
TRACE = """SPECIFICATION TSpec
CONSTANTS
  Keys <- Keys4
  Hash <- Hash4
  Vals = {1, 2}
  MaxLen = 0
INVARIANTS TRefines
CHECK_DEADLOCK TRUE
"""
FAMILIES = {"plain": "GenPlain", "slice": "GenSlice", "number": "GenNumber"}


def run(ctx):
    quick = ctx.tier == "quick"
    for st in ("E", "ES", "EN"):
        r = ctx.tlc("maps-" + st, "maps/MCMap", "maps/MCMap_%s.cfg" % st, workers=16, timeout=900)
        if r.invariant or (r.error and "Temporal" in (r.error or "")):
            raise Infra("model property violated in maps %s" % st)
        ctx.require_clean(r, st)
        ctx.add_tlc_counts(r)
        ctx.stage("maps-" + st, kind="E", distinct=r.distinct, generated=r.generated)
    klen = 2 if quick else 3
    sim_n = 100 if quick else 600
    sim_depth = 8 if quick else 14
    for fam, gspec in FAMILIES.items():
        r = ctx.tlc("maps-G-" + fam, "maps/MCMap", GEN % dict(spec=gspec, maxlen=klen), workers=8, timeout=600)
        ctx.require_clean(r, "maps-G-" + fam)
        ctx.add_tlc_counts(r)
        beh = [json.loads(b[1]) for b in r.tagged("BEHAVIOUR")]
        nex = len(beh)
        r = ctx.tlc("maps-Gs-" + fam, "maps/MCMap", GEN % dict(spec=gspec, maxlen=sim_depth), workers=1,
                    timeout=600, simulate="num=%d" % sim_n, depth=sim_depth + 1)
        ctx.require_clean(r, "maps-Gs-" + fam, allow_sim=True)
        seen = set()
        for b in r.tagged("BEHAVIOUR"):
            if b[1] not in seen and len(seen) < sim_n:
                seen.add(b[1])
                beh.append(json.loads(b[1]))
        if nex == 0 or not seen:
            raise Infra("map behaviour generation produced nothing (%s)" % fam)
        bpath = os.path.join(ctx.dir, "mapbeh-%s.ndjson" % fam)
        vlib.write_ndjson(bpath, beh)
        rpath = os.path.join(ctx.dir, "maprec-%s.ndjson" % fam)
        spath = os.path.join(ctx.dir, "mapstats-%s.json" % fam)
        ctx.drv(["c09-maps", "family=" + fam, "in=" + bpath, "out=" + rpath, "stats=" + spath, "nkeys=4",
                 "random=%d" % (20 if quick else 200), "len=%d" % (30 if quick else 80), "seed=%d" % ctx.seed])
        stats = json.load(open(spath))
        j = ctx.tlc("maps-V-" + fam, "maps/MapTrace", TRACE, data={"records.ndjson": rpath}, workers=16,
                    timeout=1800, heap="8g")
        ctx.require_clean(j, "maps-V-" + fam)
        ctx.add_tlc_counts(j)
        rejects = j.tagged("REJECT")
        recs = {r_["id"]: r_ for r_ in vlib.read_ndjson(rpath)} if rejects else {}
        for (_, rid, line, clause) in rejects:
            rec = recs[rid]
            ev = rec["ev"][line - 1]
            key = "%s:%s:%s:%s" % (rec["kind"], rec["real"], ev["op"], clause)
            what = "map history #%d on %s (%s keys) rejected at op %d (%s k=%s x=%s): clause %s" % (
                rid, rec["kind"], rec["real"], line, ev["op"], ev["k"], ev["x"], clause)
            ctx.violation(key, what, {"spec": "maps/MapTrace.tla", "record": {
                "id": rid, "kind": rec["kind"], "real": rec["real"], "ev": rec["ev"][:line]}})
        ctx.counts["traces_validated_against_impl"] += stats["records"]
        ctx.counts["evaluations"] += stats["records"]
        ctx.counts["distinct_nontrivial"] += stats.get("crossed_fast_to_slow", 0)
        ctx.stage("maps-" + fam, exhaustive_histories=nex, exhaustive_len=klen, simulated=len(seen),
                  records=stats["records"], events=stats["events"],
                  crossed_fast_to_slow=stats.get("crossed_fast_to_slow", 0), rejected=len(rejects))
        if len(ctx.samples) < 3:
            ctx.samples.append({"map_family": fam, "history": beh[len(beh) // 3]})
