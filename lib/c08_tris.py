"""C08: accelerated triangle queries (mesh colliders, BVHs, nested joins, mesh SDF) over voxel worlds.

Sites of the harness (c07_voxel.go): MeshToCollider, BVHToCollider(NewBVHAreaDensity), GroupTriangles +
GroupedTrianglesToCollider, nested NewJoinedCollider, GroupBounders + GroupedCollidersToCollider,
MeshToInterpNormalCollider (its interpolated normals differ from the face normals by design: only the normal part of
"hits" / "first" is vacuous for it), MeshToSDF, GroupedTrianglesToSDF.  The 2-D accelerators: see c08_accel2."""
import solids


def run(ctx):
    quick = ctx.tier == "quick"
    plan = "all:2,2,2;rand:3,3,2:%d;rand:4,3,3:%d" % ((25, 6) if quick else (400, 100))
    solids.judge_stage(ctx, "voxel", ["c07-voxel", "plan=" + plan, "rays=%d" % (40 if quick else 80),
                                      "spheres=%d" % (20 if quick else 40), "sdf=%d" % (40 if quick else 80)],
                       {"panic", "scan", "count", "hits", "first", "sphere", "sdf-dist", "sdf-point", "contains", "concurrent"},
                       judge="geom/VoxelJudge", timeout=3000)
