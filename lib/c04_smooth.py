"""C04: smooth joins - TLC enumerates (radius, operand-distance tuple) cases (mode R), checks the
laws of the model (mode E) and judges the real answers (mode V)."""
import json
import os

import vlib
from vlib import Infra

GEN = """SPECIFICATION GenSpec
CONSTANTS
  MaxN = %d
  Dists = {1, 2, 3, 4, 5}
  Radii = {0, 1, 2, 4}
INVARIANTS Emit Laws
CHECK_DEADLOCK FALSE
"""
JUDGE = """SPECIFICATION JudgeSpec
CONSTANTS
  MaxN = 4
  Dists = {1}
  Radii = {0}
CHECK_DEADLOCK FALSE
"""


def run(ctx):
    quick = ctx.tier == "quick"
    g = ctx.tlc("smooth-G", "solids/SmoothJoin", GEN % (4 if quick else 5), workers=8, timeout=900)
    if g.invariant:
        raise Infra("SmoothJoin model law violated (%s): specification inconsistent" % g.invariant)
    ctx.require_clean(g, "smooth-G")
    ctx.add_tlc_counts(g)
    cases = [json.loads(c[1]) for c in g.tagged("CASE")]
    if not cases:
        raise Infra("no smooth-join cases generated")
    cpath = os.path.join(ctx.dir, "smooth-cases.ndjson")
    vlib.write_ndjson(cpath, cases)
    rpath = os.path.join(ctx.dir, "smooth-records.ndjson")
    spath = os.path.join(ctx.dir, "smooth-stats.json")
    ctx.drv(["c04-smooth", "in=" + cpath, "out=" + rpath, "stats=" + spath])
    stats = json.load(open(spath))
    j = ctx.tlc("smooth-J", "solids/SmoothJoin", JUDGE, data={"records.ndjson": rpath}, workers=16, timeout=900)
    ctx.require_clean(j, "smooth-J")
    ctx.add_tlc_counts(j)
    if j.distinct != 2 * stats["records"]:
        raise Infra("smooth judge examined %d states for %d records" % (j.distinct, stats["records"]))
    rejects = j.tagged("REJECT")
    if rejects:
        recs = {r["id"]: r for r in vlib.read_ndjson(rpath)}
        for (_, rid, _l, clause) in rejects:
            rec = recs[rid]
            n = len(rec["ks"])
            key = "SmoothJoin:%s:%s" % (clause, "single-operand" if n == 1 else ("two-operands" if n == 2 else "three-or-more-operands"))
            what = "radius %s/4, operand distances -%s/4 at the probe: clause %s (answers v1_3d=%s v2_3d=%s v1_2d=%s v2_2d=%s)" % (
                rec["r"], rec["ks"], clause, rec["v1_3d"], rec["v2_3d"], rec["v1_2d"], rec["v2_2d"])
            ctx.violation(key, what, {"spec": "solids/SmoothJoin.tla", "record": rec})
    ctx.counts["traces_validated_against_impl"] += stats["records"]
    ctx.counts["evaluations"] += stats["records"]
    ctx.counts["distinct_nontrivial"] += stats.get("nonempty", 0)
    ctx.stage("smooth", kind="E+R+V", cases=len(cases), rejected=len(rejects))
    ctx.samples.append({"smooth_join_case": cases[len(cases) // 2]})
