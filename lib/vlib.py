"""Shared machinery of the /verif checks.

- building the Go harness from /repo's *current working tree* (tag `verif`)
- running TLC in a scratch directory with a timeout and a private metadir
- parsing TLC's output: state counts, PrintT tuples (REJECT / BEHAVIOUR ...), errors
- known-findings matching, replay files, evidence files, exit codes

Exit codes of a check: 0 = property held on everything explored (known findings are
printed as KNOWN-FINDING lines), 1 = VIOLATION (a line `VIOLATION property=<id>
replay=<path>` is printed), 2 = infrastructure problem (never a verdict).
"""
import ast
import json
import os
import re
import shutil
import subprocess
import sys
import time

VERIF = os.path.dirname(os.path.dirname(os.path.abspath(__file__)))
REPO = os.environ.get("VERIF_REPO", "/repo")
BUILD = os.path.join(VERIF, "build")
SPEC = os.path.join(VERIF, "spec")
HARNESS = os.path.join(VERIF, "harness")
TLA_JAR = "/opt/veriftools/tla/tla2tools.jar"
TLA_CP = TLA_JAR + ":/opt/veriftools/tla/CommunityModules-deps.jar"

GOENV = {
    "GOFLAGS": "-mod=mod",
    "GOPROXY": "off",
    "GOSUMDB": "off",
    "GOTOOLCHAIN": "local",
}


class Infra(Exception):
    """Infrastructure failure: exit 2, never a verdict."""


class Crash(Exception):
    """The code under test killed the harness process (an unrecoverable panic in a library
    goroutine, a runtime fatal error).  The violation is already registered; the check stops
    and reports what it has."""


def crash_origin(stderr, repo):
    """(kind, function, message) of a Go crash trace: kind is "library" if the innermost frame
    outside the Go runtime and the module cache lies in the repository under test, "harness" if
    it lies in /verif/harness, None if there is no crash trace."""
    lines = (stderr or "").splitlines()
    start = None
    for i, ln in enumerate(lines):
        if ln.startswith("panic:") or ln.startswith("fatal error:"):
            start = i
            break
    if start is None:
        return None, None, None
    msg = lines[start][:300]
    # frames of the first goroutine block after the message
    i = start + 1
    while i < len(lines) and not lines[i].startswith("goroutine "):
        i += 1
    i += 1
    repo = os.path.realpath(repo)
    while i + 1 < len(lines) and lines[i].strip():
        fn, loc = lines[i].strip(), lines[i + 1].strip()
        path = loc.split(":")[0]
        if path.startswith(repo + "/") or os.path.realpath(path).startswith(repo + "/"):
            return "library", re.sub(r"\([^()]*\)$", "", fn), msg
        if "/harness/cmd/drv/" in path:
            return "harness", re.sub(r"\([^()]*\)$", "", fn), msg
        i += 2
    return None, None, msg


def log(*a):
    print(*a, flush=True)


# --------------------------------------------------------------------------------------
# TLA+ value parsing (PrintT output)


def _balanced_chunks(lines, tags):
    """Yield complete `<<"TAG", ...>>` texts from TLC stdout (values may be wrapped
    over several lines by TLC's pretty printer)."""
    starts = tuple('<<"%s"' % t for t in tags)
    buf = None
    depth = 0
    for line in lines:
        s = line.rstrip("\n")
        if buf is None:
            st = s.lstrip()
            if not st.startswith(starts):
                continue
            buf = ""
            depth = 0
            s = st
        # count brackets outside strings
        i = 0
        instr = False
        while i < len(s):
            c = s[i]
            if instr:
                if c == "\\":
                    i += 1
                elif c == '"':
                    instr = False
            else:
                if c == '"':
                    instr = True
                elif s.startswith("<<", i):
                    depth += 1
                    i += 1
                elif s.startswith(">>", i):
                    depth -= 1
                    i += 1
            i += 1
        buf += s + " "
        if depth <= 0:
            yield buf.strip()
            buf = None


def _tla_to_py(text):
    """Convert a TLA+ tuple/string/int/bool/set value text into a python value."""
    out = []
    i = 0
    n = len(text)
    while i < n:
        c = text[i]
        if c == '"':
            j = i + 1
            while j < n:
                if text[j] == "\\":
                    j += 2
                    continue
                if text[j] == '"':
                    break
                j += 1
            out.append(text[i:j + 1])
            i = j + 1
            continue
        if text.startswith("<<", i):
            out.append("(")
            i += 2
            continue
        if text.startswith(">>", i):
            out.append(",)")
            i += 2
            continue
        if c == "{":
            out.append("[")
            i += 1
            continue
        if c == "}":
            out.append("]")
            i += 1
            continue
        if text.startswith("TRUE", i):
            out.append("True")
            i += 4
            continue
        if text.startswith("FALSE", i):
            out.append("False")
            i += 5
            continue
        out.append(c)
        i += 1
    src = "".join(out)
    src = src.replace("(,)", "()")
    return ast.literal_eval(src)


def parse_prints(stdout_lines, tags):
    res = []
    for chunk in _balanced_chunks(stdout_lines, tags):
        try:
            res.append(_tla_to_py(chunk))
        except Exception as e:  # pragma: no cover
            raise Infra("cannot parse TLC print: %r (%s)" % (chunk[:200], e))
    return res


# --------------------------------------------------------------------------------------


class TlcResult:
    def __init__(self):
        self.rc = None
        self.generated = 0
        self.distinct = 0
        self.depth = 0
        self.completed = False
        self.error = None           # text of first TLC error (invariant violation, etc.)
        self.invariant = None       # name of violated invariant, if any
        self.prints = []
        self.wall = 0.0
        self.stdout_path = None
        self.timeout = False
        self.coverage = {}

    def tagged(self, tag):
        return [p for p in self.prints if p and p[0] == tag]


class Ctx:
    def __init__(self, pid, tier, seed):
        self.pid = pid
        self.tier = tier
        self.seed = seed
        self.t0 = time.time()
        self.dir = os.path.join(BUILD, pid)
        shutil.rmtree(self.dir, ignore_errors=True)
        os.makedirs(self.dir, exist_ok=True)
        self.stages = []
        self.violations = []     # dicts: key, what, replay
        self.known_hits = []
        self.samples = []
        self.counts = {
            "states": 0, "transitions": 0, "traces_validated_against_impl": 0,
            "evaluations": 0, "distinct_nontrivial": 0,
        }
        self.extra = {}
        self.assumptions = []
        self.rule = ""
        self.level = "model_checking"
        self._bins = {}
        self.only_key = None
        self.replaying = False
        self.findings = load_findings()

    # ---------------------------------------------------------------- harness
    def build_harness(self, race=False, tags="verif"):
        key = ("race" if race else "plain", tags)
        if key in self._bins:
            return self._bins[key]
        bindir = os.path.join(BUILD, "bin")
        os.makedirs(bindir, exist_ok=True)
        out = os.path.join(bindir, "drv-%s-%s%s" % (self.pid, tags or "notag", "-race" if race else ""))
        env = dict(os.environ)
        env.update(GOENV)
        # go.sum must come from /repo (no network)
        try:
            shutil.copyfile(os.path.join(REPO, "go.sum"), os.path.join(HARNESS, "go.sum"))
        except OSError as e:
            raise Infra("cannot copy go.sum: %s" % e)
        cmd = ["go", "build"]
        if tags:
            cmd += ["-tags", tags]
        if race:
            cmd += ["-race"]
        cmd += ["-o", out, "./cmd/drv"]
        t = time.time()
        p = subprocess.run(cmd, cwd=HARNESS, env=env, stdout=subprocess.PIPE,
                           stderr=subprocess.STDOUT, text=True)
        if p.returncode != 0:
            raise Infra("harness build failed:\n" + p.stdout[-4000:])
        log("[build] harness%s built in %.1fs" % (" (race)" if race else "", time.time() - t))
        self._bins[key] = out
        return out

    def drv(self, args, race=False, timeout=600, env_extra=None, stdin=None, check=True,
            prefix=None):
        binp = self.build_harness(race=race)
        env = dict(os.environ)
        env["VERIF_SEED"] = str(self.seed)
        env["VERIF_TIER"] = self.tier
        if env_extra:
            env.update(env_extra)
        cmd = (prefix or []) + [binp] + [str(a) for a in args]
        t = time.time()
        try:
            p = subprocess.run(cmd, cwd=self.dir, env=env, input=stdin, stdout=subprocess.PIPE,
                               stderr=subprocess.PIPE, text=True, timeout=timeout)
        except subprocess.TimeoutExpired:
            raise Infra("harness %s timed out after %ss" % (args[:3], timeout))
        if check and p.returncode != 0:
            kind, fn, msg = crash_origin(p.stderr, REPO)
            if kind == "library":
                # a crash inside the library on an input the harness considers valid: a verdict
                self.violation("crash:%s:%s" % (args[0], fn.split("/")[-1]),
                               "the harness process was killed by the code under test in %s: %s" % (fn, msg),
                               {"command": [str(a) for a in args[:1]], "stderr_tail": (p.stderr or "")[-3000:]})
                raise Crash(msg)
            raise Infra("harness %s failed rc=%s\n%s" % (args[:3], p.returncode, (p.stderr or "")[-3000:]))
        p.wall = time.time() - t
        return p

    # ---------------------------------------------------------------- TLAPS
    TLAPS_STDLIB = "/opt/veriftools/tlapm/lib/tlapm/stdlib/TLAPS.tla"

    def tlaps_module(self):
        """{name: text} of the TLAPS standard module, so that TLC can parse modules that carry proofs."""
        return {"TLAPS.tla": open(self.TLAPS_STDLIB).read()} if os.path.exists(self.TLAPS_STDLIB) else {}

    def tlaps(self, stage, module, timeout=900):
        """Runs the TLA+ proof system on spec/<module>.tla in a scratch directory (no fingerprint cache) and
        returns (proved, obligations, tail of the output).  A proof that does not go through is reported by
        the caller as missing strengthening, never as a verdict about the code: proofs are about the design."""
        rd = os.path.join(self.dir, "tlaps-" + stage)
        shutil.rmtree(rd, ignore_errors=True)
        os.makedirs(rd)
        moddir = os.path.dirname(os.path.join(SPEC, module))
        for f in os.listdir(moddir):
            if f.endswith(".tla"):
                shutil.copyfile(os.path.join(moddir, f), os.path.join(rd, f))
        name = os.path.basename(module) + ".tla"
        t = time.time()
        try:
            p = subprocess.run(["tlapm", "--threads", "16", name], cwd=rd, stdout=subprocess.PIPE, stderr=subprocess.STDOUT,
                               text=True, timeout=timeout)
            out = p.stdout or ""
        except (subprocess.TimeoutExpired, FileNotFoundError) as e:
            out = "tlapm: %s" % e
        m = re.search(r"All (\d+) obligations? proved", out)
        log("[tlaps] %-28s %6.1fs %s" % (stage, time.time() - t, m.group(0) if m else "NOT PROVED"))
        return bool(m), int(m.group(1)) if m else 0, out[-1500:]

    # ---------------------------------------------------------------- TLC
    CHUNK_BYTES = 32 * 1024 * 1024

    def tlc(self, stage, module, cfg, files=(), data=None, **kw):
        """Like _tlc_once, but a records.ndjson input larger than CHUNK_BYTES is judged in pieces
        (TLC deserialises a whole file into memory; records are independent of each other in every
        judge and trace module here: Init picks one record)."""
        rp = (data or {}).get("records.ndjson")
        if not rp or kw.get("simulate") or os.path.getsize(rp) <= self.CHUNK_BYTES:
            return self._tlc_once(stage, module, cfg, files=files, data=data, **kw)
        merged, n = None, 0
        with open(rp) as fh:
            while True:
                lines = fh.readlines(self.CHUNK_BYTES)
                if not lines:
                    break
                n += 1
                cpath = os.path.join(self.dir, "chunk-%s-%d.ndjson" % (stage, n))
                with open(cpath, "w") as out:
                    out.writelines(lines)
                d = dict(data)
                d["records.ndjson"] = cpath
                r = self._tlc_once("%s.%d" % (stage, n), module, cfg, files=files, data=d, **kw)
                os.remove(cpath)
                shutil.rmtree(os.path.join(self.dir, "tlc-%s.%d" % (stage, n), "records.ndjson"), ignore_errors=True)
                try:
                    os.remove(os.path.join(self.dir, "tlc-%s.%d" % (stage, n), "records.ndjson"))
                except OSError:
                    pass
                if merged is None:
                    merged = r
                else:
                    merged.generated += r.generated
                    merged.distinct += r.distinct
                    merged.depth = max(merged.depth, r.depth)
                    merged.wall += r.wall
                    merged.prints += r.prints
                    bad_before = merged.timeout or merged.error or not merged.completed
                    merged.completed = merged.completed and r.completed
                    merged.timeout = merged.timeout or r.timeout
                    if not bad_before and (r.timeout or r.error or not r.completed):
                        merged.stdout_path, merged.rc = r.stdout_path, r.rc
                    merged.error = merged.error or r.error
                    merged.invariant = merged.invariant or r.invariant
        return merged

    def _tlc_once(self, stage, module, cfg, files=(), data=None, workers=8, timeout=600,
            simulate=None, depth=None, tags=("REJECT", "BEHAVIOUR", "CASE", "NOTE", "COVER"),
            heap="4g", extra=(), dfs=False, coverage=False, deadlock=None, xss="256m",
            generated=None):
        """Run TLC on spec/<module>.tla with cfg (a path relative to spec/ or literal text).

        files: other spec-relative files to copy (modules EXTENDed).  data: {name: path}
        files copied/linked into the run directory (ndjson inputs).  generated: {name: text}
        modules written into the run directory.
        """
        rd = os.path.join(self.dir, "tlc-" + stage)
        shutil.rmtree(rd, ignore_errors=True)
        os.makedirs(rd)
        modpath = os.path.join(SPEC, module)
        moddir = os.path.dirname(modpath)
        modname = os.path.basename(module)
        if modname.endswith(".tla"):
            modname = modname[:-4]
        # copy the whole directory of the module and spec/common (small files)
        for d in {moddir, os.path.join(SPEC, "common")}:
            if os.path.isdir(d):
                for f in os.listdir(d):
                    if f.endswith(".tla") or f.endswith(".cfg"):
                        shutil.copyfile(os.path.join(d, f), os.path.join(rd, f))
        for f in files:
            shutil.copyfile(os.path.join(SPEC, f), os.path.join(rd, os.path.basename(f)))
        if generated:
            for name, text in generated.items():
                with open(os.path.join(rd, name), "w") as fh:
                    fh.write(text)
        if data:
            for name, path in data.items():
                dst = os.path.join(rd, name)
                if os.path.abspath(path) != os.path.abspath(dst):
                    try:
                        os.link(path, dst)
                    except OSError:
                        shutil.copyfile(path, dst)
        if "\n" in cfg or cfg.strip().startswith(("SPECIFICATION", "INIT", "CONSTANT")):
            cfgname = modname + "_" + stage + ".cfg"
            with open(os.path.join(rd, cfgname), "w") as fh:
                fh.write(cfg)
        else:
            cfgname = os.path.basename(cfg)
            if not os.path.exists(os.path.join(rd, cfgname)):
                shutil.copyfile(os.path.join(SPEC, cfg), os.path.join(rd, cfgname))
        jopts = ["-XX:+UseParallelGC", "-Xmx" + heap]
        if xss:
            jopts.append("-Xss" + xss)
        if dfs:
            jopts.append("-Dtlc2.tool.queue.IStateQueue=StateDeque")
        cmd = ["java"] + jopts + ["-cp", TLA_CP, "tlc2.TLC", "-metadir", os.path.join(rd, "meta"),
                                  "-workers", str(workers), "-config", cfgname]
        if simulate:
            cmd += ["-simulate", simulate]
            if depth:
                cmd += ["-depth", str(depth)]
            cmd += ["-seed", str(self.seed)]
        if coverage:
            cmd += ["-coverage", "1"]
        if deadlock is False:
            cmd += ["-deadlock"]
        cmd += list(extra)
        cmd += [modname + ".tla"]
        res = TlcResult()
        res.stdout_path = os.path.join(rd, "tlc.out")
        t = time.time()
        with open(res.stdout_path, "w") as fh:
            try:
                p = subprocess.run(cmd, cwd=rd, stdout=fh, stderr=subprocess.STDOUT, timeout=timeout)
                res.rc = p.returncode
            except subprocess.TimeoutExpired:
                res.timeout = True
                res.rc = -1
        res.wall = time.time() - t
        with open(res.stdout_path, errors="replace") as fh:
            lines = fh.readlines()
        for ln in lines:
            m = re.match(r"(\d+) states generated, (\d+) distinct states found", ln)
            if m:
                res.generated = int(m.group(1))
                res.distinct = int(m.group(2))
            m = re.match(r"The depth of the complete state graph search is (\d+)", ln)
            if m:
                res.depth = int(m.group(1))
            if "Model checking completed. No error has been found" in ln:
                res.completed = True
            m = re.match(r"Error: Invariant (\S+) is violated", ln)
            if m and not res.invariant:
                res.invariant = m.group(1)
            if ln.startswith("Error:") and res.error is None:
                res.error = ln.strip()
            m = re.match(r"Progress\(\d+\).*?: (\d+) states generated.*?(\d+) distinct states", ln)
            if m and not res.completed:
                res.generated = max(res.generated, int(m.group(1).replace(",", "")))
        res.prints = parse_prints(lines, tags)
        shutil.rmtree(os.path.join(rd, "meta"), ignore_errors=True)
        log("[tlc] %-28s %8.1fs gen=%d distinct=%d depth=%d %s%s" % (
            stage, res.wall, res.generated, res.distinct, res.depth,
            "completed" if res.completed else ("TIMEOUT" if res.timeout else "rc=%s" % res.rc),
            (" error=" + res.error) if res.error else ""))
        return res

    def require_clean(self, res, stage, allow_sim=False):
        """Infrastructure guard: the TLC run must have finished without a TLC-level error
        (parse errors, evaluation errors, timeouts are exit 2, not verdicts)."""
        if res.timeout:
            raise Infra("TLC stage %s timed out" % stage)
        if res.error and not res.invariant:
            raise Infra("TLC stage %s: %s (see %s)" % (stage, res.error, res.stdout_path))
        if not res.completed and not res.invariant and not allow_sim:
            raise Infra("TLC stage %s did not complete (rc=%s, see %s)" % (stage, res.rc, res.stdout_path))

    # ---------------------------------------------------------------- bookkeeping
    def stage(self, name, **kw):
        kw["stage"] = name
        self.stages.append(kw)

    def add_tlc_counts(self, res):
        self.counts["states"] += res.distinct
        self.counts["transitions"] += res.generated

    def violation(self, key, what, replay):
        """Register a violation observed on the real code and judged by TLC."""
        if self.only_key is not None and key != self.only_key:
            return
        ent = self.findings_lookup(key)
        if ent is not None and ent.get("status") == "known":
            if key not in [k["key"] for k in self.known_hits]:
                self.known_hits.append({"key": key, "what": what})
            return
        # one replay file per key
        for v in self.violations:
            if v["key"] == key:
                v["count"] += 1
                return
        rdir = os.path.join(VERIF, "replays", self.pid)
        if self.replaying:
            rdir = os.path.join(self.dir, "replayed")
        os.makedirs(rdir, exist_ok=True)
        safe = re.sub(r"[^A-Za-z0-9_.+-]+", "_", key)[:120]
        path = os.path.join(rdir, safe + ".json")
        with open(path, "w") as fh:
            json.dump({"property": self.pid, "key": key, "what": what, "seed": self.seed,
                       "tier": self.tier, "repo_head": repo_head(), "replay": replay}, fh, indent=1)
        self.violations.append({"key": key, "what": what, "path": path, "count": 1})

    def findings_lookup(self, key):
        for ent in self.findings:
            if ent.get("property") == self.pid and ent.get("key") == key:
                return ent
        return None

    def finish(self):
        wall = time.time() - self.t0
        cov = dict(self.counts)
        cov["rule"] = self.rule
        cov["samples"] = self.samples[:12] if self.samples else ["(none recorded)"]
        cov["stages"] = self.stages
        cov["exhaustive"] = bool(self.extra.get("exhaustive", False))
        cov["known_findings_hit"] = self.known_hits
        for k, v in self.extra.items():
            cov[k] = v
        ev = {
            "property_id": self.pid,
            "tier": self.tier,
            "seed": self.seed,
            "level": self.level,
            "coverage": cov,
            "assumptions": self.assumptions,
            "wall_s": round(wall, 2),
            "violations": len(self.violations),
        }
        os.makedirs(os.path.join(VERIF, "evidence"), exist_ok=True)
        evpath = os.path.join(VERIF, "evidence", self.pid + ".json")
        if self.replaying:
            evpath = os.path.join(self.dir, "replay-evidence.json")
        with open(evpath, "w") as fh:
            json.dump(ev, fh, indent=1, sort_keys=True, default=str)
        for k in self.known_hits:
            log("KNOWN-FINDING: property=%s %s -- %s" % (self.pid, k["key"], k["what"]))
        for v in self.violations:
            log("VIOLATION property=%s replay=%s" % (self.pid, v["path"]))
            log("   key=%s x%d: %s" % (v["key"], v["count"], v["what"]))
        log("[done] %s %s wall=%.1fs states=%d traces=%d violations=%d known=%d" % (
            self.pid, self.tier, wall, cov["states"], cov["traces_validated_against_impl"],
            len(self.violations), len(self.known_hits)))
        return 1 if self.violations else 0


def repo_head():
    try:
        return subprocess.run(["git", "-C", REPO, "rev-parse", "HEAD"], stdout=subprocess.PIPE,
                              text=True).stdout.strip()
    except Exception:
        return "?"


def load_findings():
    p = os.path.join(VERIF, "known_findings.json")
    try:
        with open(p) as fh:
            return json.load(fh).get("findings", [])
    except FileNotFoundError:
        return []


def read_ndjson(path):
    out = []
    with open(path) as fh:
        for ln in fh:
            ln = ln.strip()
            if ln:
                out.append(json.loads(ln))
    return out


def write_ndjson(path, recs):
    with open(path, "w") as fh:
        for r in recs:
            fh.write(json.dumps(r, separators=(",", ":")) + "\n")


def read_ndjson_head(path, n):
    """The n-th record of the file (a non-trivial sample), as a one-element list."""
    with open(path) as fh:
        for i, ln in enumerate(fh):
            if i + 1 == n:
                return [json.loads(ln)]
    return []
