"""C12/C13 mode E: the marching-cubes slab pipeline (McScan) and the dual-contouring window (DcWindow)."""
import json
import os

import vlib
from vlib import Infra

DCWTRACE = "SPECIFICATION TSpec\nCONSTANTS\n  MaxZ = 24\nINVARIANTS TInv\nCHECK_DEADLOCK FALSE\n"
SCANTRACE = "SPECIFICATION TSpec\nCONSTANTS\n  MaxZ = 24\n  MaxP = 17\nINVARIANTS TInv\nCHECK_DEADLOCK FALSE\n"

MCSCAN = "SPECIFICATION Spec\nCONSTANTS\n  MaxZ = %d\n  MaxP = %d\nINVARIANTS RightSlabs NoRace EachOnce\nPROPERTIES Terminates\nCHECK_DEADLOCK FALSE\n"
DCWIN = "SPECIFICATION Spec\nCONSTANTS\n  MaxZ = %d\nINVARIANTS NeverWithoutCubes AtMostOnce AllOnceAtEnd\nPROPERTIES Terminates\nCHECK_DEADLOCK FALSE\n"


BLOCKS = ("SPECIFICATION Spec\nCONSTANTS\n  DX = %d\n  DY = %d\n  DZ = %d\n  MaxMinVol = %d\n"
          "INVARIANTS Positive Disjoint Covers\nPROPERTIES Terminates\nCHECK_DEADLOCK FALSE\n")


def run(ctx):
    quick = ctx.tier == "quick"
    for name, mod, cfg in [("BlockPieces", "pipeline/BlockPieces", BLOCKS % ((3, 2, 2, 2) if quick else (4, 3, 2, 3))),
                           ("McScan", "pipeline/McScan", MCSCAN % ((8, 4) if quick else (11, 6))),
                           ("DcWindow", "pipeline/DcWindow", DCWIN % (12 if quick else 20))]:
        e = ctx.tlc("E-" + name, mod, cfg, workers=8, timeout=1200)
        if e.invariant or (e.error and "emporal" in e.error):
            raise Infra("%s violates %s: the protocol model is wrong or the design is - investigate" % (
                name, e.invariant or e.error))
        ctx.require_clean(e, "E-" + name)
        ctx.add_tlc_counts(e)
        ctx.stage("protocol-" + name, kind="E", states=e.distinct, generated=e.generated)
    scan_trace(ctx)
    dcwin_trace(ctx)
    block_queries(ctx)


def scan_trace(ctx):
    """V: hook traces of the real squareSpacer.Scan (MarchingCubes at GOMAXPROCS 1..16, 3..19 slabs) are behaviours of
    McScan, with McScan's invariants evaluated on every state of every trace."""
    quick = ctx.tier == "quick"
    rpath = os.path.join(ctx.dir, "records-scan.ndjson")
    spath = os.path.join(ctx.dir, "stats-scan.json")
    ctx.drv(["c12-scan", "out=" + rpath, "stats=" + spath, "rounds=%d" % (2 if quick else 25), "seed=%d" % ctx.seed])
    stats = json.load(open(spath))
    if stats.get("records", 0) == 0 or stats.get("events", 0) < 10 * stats["records"]:
        raise Infra("scan driver recorded %s" % stats)
    j = ctx.tlc("V-scan", "pipeline/McScanTrace", SCANTRACE, data={"records.ndjson": rpath}, workers=16, timeout=1800)
    recs = None
    if j.invariant:
        ctx.violation("scan-trace:%s" % j.invariant,
                      "a recorded hook trace of squareSpacer.Scan drives McScan into a state violating %s" % j.invariant,
                      {"spec": "pipeline/McScanTrace.tla", "tlc_output_tail": open(j.stdout_path).read()[-3000:]})
    else:
        ctx.require_clean(j, "V-scan")
        # one state per consumed event + the initial and the final state of every record
        if j.distinct != stats["events"] + 2 * stats["records"] and not j.tagged("REJECT"):
            raise Infra("scan trace validation examined %d states for %d events in %d records" % (
                j.distinct, stats["events"], stats["records"]))
    ctx.add_tlc_counts(j)
    for (_, rid, line, ev) in j.tagged("REJECT"):
        if recs is None:
            recs = {r["id"]: r for r in vlib.read_ndjson(rpath)}
        rec = recs[rid]
        ctx.violation("scan-trace:MarchingCubes:%s" % ev,
                      "hook trace #%d (GOMAXPROCS=%d, lattice %s) is not a behaviour of McScan at event %d (%s)" % (
                          rid, rec["procs"], rec["n"], line, ev),
                      {"spec": "pipeline/McScanTrace.tla", "procs": rec["procs"], "n": rec["n"],
                       "trace_prefix": rec["ev"][:line]})
    for rec in vlib.read_ndjson(rpath):
        if rec["panic"]:
            ctx.violation("scan-panic:MarchingCubes", "MarchingCubes panicked: %s" % rec["panic"][:300], {"record": rec["id"]})
    ctx.counts["traces_validated_against_impl"] += stats["records"]
    ctx.counts["evaluations"] += stats["records"]
    ctx.counts["distinct_nontrivial"] += stats.get("nonempty", 0)
    ctx.stage("V-scan", kind="V", records=stats["records"], events=stats["events"], fewer_slabs_than_workers=stats.get("flat", 0))


def dcwin_trace(ctx):
    """V: hook traces of the real dual-contouring window (every buffer depth 4..12 and the default, 3..19 planes) are
    behaviours of DcWindow; every edge the code triangulated lies in a row the specification triangulates in that pass."""
    quick = ctx.tier == "quick"
    rpath = os.path.join(ctx.dir, "records-dcwin.ndjson")
    spath = os.path.join(ctx.dir, "stats-dcwin.json")
    ctx.drv(["c12-dcwin", "out=" + rpath, "stats=" + spath, "rounds=%d" % (2 if quick else 30), "seed=%d" % ctx.seed])
    stats = json.load(open(spath))
    if stats.get("records", 0) == 0 or stats.get("nonempty", 0) == 0 or stats.get("tris", 0) == 0:
        raise Infra("dcwin driver recorded %s" % stats)
    j = ctx.tlc("V-dcwin", "pipeline/DcWindowTrace", DCWTRACE, data={"records.ndjson": rpath}, workers=16, timeout=1800)
    if j.invariant:
        ctx.violation("dcwin-trace:%s" % j.invariant,
                      "a recorded hook trace of the dual-contouring window drives DcWindow into a state violating %s" % j.invariant,
                      {"spec": "pipeline/DcWindowTrace.tla", "tlc_output_tail": open(j.stdout_path).read()[-3000:]})
    else:
        ctx.require_clean(j, "V-dcwin")
        if j.distinct != stats["events"] + 2 * stats["records"] and not j.tagged("REJECT"):
            raise Infra("dcwin trace validation examined %d states for %d events in %d records" % (
                j.distinct, stats["events"], stats["records"]))
    ctx.add_tlc_counts(j)
    recs = None
    for (_, rid, line, ev) in j.tagged("REJECT"):
        if recs is None:
            recs = {r["id"]: r for r in vlib.read_ndjson(rpath)}
        rec = recs[rid]
        ctx.violation("dcwin-trace:DualContouring:%s" % ev,
                      "hook trace #%d (%s, lattice %s, %d planes, %d buffered) is not a behaviour of DcWindow at event %d (%s)" % (
                          rid, rec["cfg"], rec["n"], rec["nz"], rec["bufrows"], line, ev),
                      {"spec": "pipeline/DcWindowTrace.tla", "cfg": rec["cfg"], "n": rec["n"], "trace_prefix": rec["ev"][:line]})
    for rec in vlib.read_ndjson(rpath):
        if rec["panic"]:
            ctx.violation("dcwin-panic:DualContouring", "DualContouring panicked: %s" % rec["panic"][:300], {"record": rec["id"]})
        elif rec["ntri"] != rec["quads"]:
            ctx.violation("dcwin-trace:DualContouring:quads", "%d edges were triangulated but the mesh has %d quads" % (
                rec["ntri"], rec["quads"]), {"record": rec["id"], "cfg": rec["cfg"]})
    ctx.counts["traces_validated_against_impl"] += stats["records"]
    ctx.counts["evaluations"] += stats["records"]
    ctx.counts["distinct_nontrivial"] += stats.get("nonempty", 0)
    ctx.stage("V-dcwin", kind="V", records=stats["records"], events=stats["events"], window_moved=stats.get("nonempty", 0),
              edges_triangulated=stats["tris"])


def block_queries(ctx):
    """V: the region-filter queries of the real MarchingCubesFilter / MarchingSquaresFilter (observed by the
    harness's own filter) form a recursive decomposition by axis-parallel cuts of accepted blocks; whether the cuts
    are BlockPieces' own (Volume / SplitAxis / Split) is recorded, not judged."""
    quick = ctx.tier == "quick"
    rpath = os.path.join(ctx.dir, "records-blocks.ndjson")
    spath = os.path.join(ctx.dir, "stats-blocks.json")
    ctx.drv(["c12-blocks", "out=" + rpath, "stats=" + spath, "rounds=%d" % (3 if quick else 40), "seed=%d" % ctx.seed])
    stats = json.load(open(spath))
    if stats.get("records", 0) == 0 or stats.get("nonempty", 0) == 0:
        raise Infra("blocks driver recorded %s" % stats)
    j = ctx.tlc("J-blocks", "pipeline/BlockJudge", "SPECIFICATION Spec\nCHECK_DEADLOCK FALSE\n",
                data={"records.ndjson": rpath}, workers=16, timeout=1800)
    ctx.require_clean(j, "J-blocks")
    ctx.add_tlc_counts(j)
    if j.distinct != 2 * stats["records"]:
        raise Infra("block judge examined %d states for %d records" % (j.distinct, stats["records"]))
    rejects = j.tagged("REJECT")
    other_rule = len([x for x in j.tagged("NOTE") if x[2] == "split-rule"])
    if rejects:
        recs = {r["id"]: r for r in vlib.read_ndjson(rpath)}
        for (_, rid, _l, clause) in rejects:
            rec = recs[rid]
            if clause == "answers":
                raise Infra("the harness's region filter was not a function of the block")
            ctx.violation("%s:blocks:%s" % (rec["site"], clause),
                          "%s on a %s-cell grid (GOMAXPROCS=%d): clause %s%s" % (
                              rec["site"], rec["root"], rec["procs"], clause,
                              (" panic=" + rec["panic"][:200]) if rec["panic"] else ""),
                          {"spec": "pipeline/BlockJudge.tla", "record": rec})
    ctx.counts["traces_validated_against_impl"] += stats["records"]
    ctx.counts["evaluations"] += stats["records"]
    ctx.counts["distinct_nontrivial"] += stats.get("nonempty", 0)
    ctx.stage("V-blocks", kind="V", records=stats["records"], queries=stats["queries"], root_split=stats.get("nonempty", 0),
              rejected=len(rejects), runs_cut_differently_from_BlockPieces=other_rule)
