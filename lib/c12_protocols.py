"""C12/C13 mode E: the slab pipeline, block splitting and dual-contouring window protocols."""
import vlib
from vlib import Infra


def run(ctx):
    pass
