"""C12/C13 mode E: the marching-cubes slab pipeline (McScan) and the dual-contouring window (DcWindow)."""
from vlib import Infra

MCSCAN = "SPECIFICATION Spec\nCONSTANTS\n  MaxZ = %d\n  MaxP = %d\nINVARIANTS RightSlabs NoRace EachOnce\nPROPERTIES Terminates\nCHECK_DEADLOCK FALSE\n"
DCWIN = "SPECIFICATION Spec\nCONSTANTS\n  MaxZ = %d\nINVARIANTS NeverWithoutCubes AtMostOnce AllOnceAtEnd\nPROPERTIES Terminates\nCHECK_DEADLOCK FALSE\n"


BLOCKS = ("SPECIFICATION Spec\nCONSTANTS\n  DX = %d\n  DY = %d\n  DZ = %d\n  MaxMinVol = %d\n"
          "INVARIANTS Positive Disjoint Covers\nPROPERTIES Terminates\nCHECK_DEADLOCK FALSE\n")


def run(ctx):
    quick = ctx.tier == "quick"
    for name, mod, cfg in [("BlockPieces", "pipeline/BlockPieces", BLOCKS % ((3, 2, 2, 2) if quick else (4, 3, 2, 3))),
                           ("McScan", "pipeline/McScan", MCSCAN % ((8, 4) if quick else (11, 6))),
                           ("DcWindow", "pipeline/DcWindow", DCWIN % (12 if quick else 20))]:
        e = ctx.tlc("E-" + name, mod, cfg, workers=8, timeout=1200)
        if e.invariant or (e.error and "emporal" in e.error):
            raise Infra("%s violates %s: the protocol model is wrong or the design is - investigate" % (
                name, e.invariant or e.error))
        ctx.require_clean(e, "E-" + name)
        ctx.add_tlc_counts(e)
        ctx.stage("protocol-" + name, kind="E", states=e.distinct, generated=e.generated)
