#!/bin/bash
# Offline setup: check the tools and warm the Go build cache by building the harness once.
set -e
cd "$(dirname "$0")"
export GOFLAGS=-mod=mod GOPROXY=off GOSUMDB=off GOTOOLCHAIN=local
command -v java >/dev/null
test -f /opt/veriftools/tla/tla2tools.jar
mkdir -p build/bin evidence
cp /repo/go.sum harness/go.sum
(cd harness && go build -tags verif -o ../build/bin/drv-setup ./cmd/drv)
echo "setup ok"
